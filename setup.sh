#!/bin/sh
# Build the simulation harness from files on disk only (offline), against /repo's working tree.
set -e
cd "$(dirname "$0")"
export CARGO_NET_OFFLINE=true
./build.sh
.build/target/release/rce_sim selftest
