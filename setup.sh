#!/bin/sh
# placeholder: replaced by the real setup once the harness exists
exit 0
