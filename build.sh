#!/bin/sh
# Build the simulation harness against the CURRENT working tree of the repository.
#   RCE_REPO          repository root (default /repo)
#   VERIF_BUILD_DIR   where the source farm and target dir live (default /verif/.build)
# The crate is bin-only with private modules, so the harness is compiled as part of the
# same crate: a generated src/ directory whose main.rs is the harness root and in which
# every other entry is a symlink into $RCE_REPO/src.
set -e
REPO=${RCE_REPO:-/repo}
HERE=$(cd "$(dirname "$0")" && pwd)
B=${VERIF_BUILD_DIR:-$HERE/.build}
mkdir -p "$B/src" "$B/.cargo"
exec 9>"$B/.lock"
flock 9
find "$B/src" -maxdepth 1 -type l -delete
for e in "$REPO"/src/*; do
  n=$(basename "$e")
  [ "$n" = main.rs ] && continue
  ln -s "$e" "$B/src/$n"
done
ln -s "$HERE/harness/sim" "$B/src/sim"
python3 - "$REPO" "$B" <<'PY'
import sys, re, os
repo, b = sys.argv[1], sys.argv[2]
src = open(os.path.join(repo, 'src/main.rs')).read()
head = src.split('fn main', 1)[0]
head = '\n'.join(l for l in head.splitlines() if not l.startswith('use std::env'))
main = '#![allow(warnings)]\n' + head + '\nmod sim;\n\nfn main() {\n    sim::main();\n}\n'
p = os.path.join(b, 'src/main.rs')
if not os.path.exists(p) or open(p).read() != main:
    open(p, 'w').write(main)
toml = open(os.path.join(repo, 'Cargo.toml')).read()
toml = re.split(r'\n\[profile\.', toml)[0]
toml += '''
[[bin]]
name = "rce_sim"
path = "src/main.rs"

[workspace]

[profile.release]
opt-level = 3
lto = false
debug = false
panic = "unwind"
codegen-units = 16
incremental = false
'''
p = os.path.join(b, 'Cargo.toml')
if not os.path.exists(p) or open(p).read() != toml:
    open(p, 'w').write(toml)
PY
cp "$REPO/Cargo.lock" "$B/Cargo.lock"
if [ -f "$REPO/rust-toolchain" ]; then cp "$REPO/rust-toolchain" "$B/rust-toolchain"; fi
cat > "$B/.cargo/config.toml" <<'CFG'
[net]
offline = true
[build]
rustflags = ["--cfg", "rce_verif"]
CFG
cd "$B"
CARGO_NET_OFFLINE=true cargo build --release --offline --bin rce_sim 2>"$B/build.log" || { tail -40 "$B/build.log" >&2; exit 2; }
# Optional: the shipped program itself (hooks OFF), for the supplementary real-process stages.
if [ "${VERIF_BUILD_REAL:-0}" = 1 ]; then
  mkdir -p "$B/real/.cargo"
  python3 - "$REPO" "$B" <<'PY'
import sys, re, os
repo, b = sys.argv[1], sys.argv[2]
toml = open(os.path.join(repo, 'Cargo.toml')).read()
toml = re.split(r'\n\[profile\.', toml)[0]
toml += f'''
[[bin]]
name = "rce_real"
path = "{repo}/src/main.rs"

[workspace]

[profile.release]
opt-level = 3
lto = false
debug = false
codegen-units = 16
incremental = false
'''
p = os.path.join(b, 'real', 'Cargo.toml')
if not os.path.exists(p) or open(p).read() != toml:
    open(p, 'w').write(toml)
PY
  cp "$REPO/Cargo.lock" "$B/real/Cargo.lock"
  if [ -f "$REPO/rust-toolchain" ]; then cp "$REPO/rust-toolchain" "$B/real/rust-toolchain"; fi
  printf '[net]\noffline = true\n' > "$B/real/.cargo/config.toml"
  ( cd "$B/real" && CARGO_NET_OFFLINE=true cargo build --release --offline --bin rce_real 2>"$B/build-real.log" ) || { tail -40 "$B/build-real.log" >&2; exit 2; }
fi
