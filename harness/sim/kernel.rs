//! The simulation kernel: owns scheduling, virtual time, the scripted GUI, the output
//! sink and the event log. Exactly one simulated thread executes engine code at any
//! instant; every other one is parked on the kernel's condvar.

use std::cell::Cell;
use std::collections::VecDeque;
use std::io::{self, BufRead, Read};
use std::sync::atomic::{AtomicBool, AtomicU64, AtomicUsize, Ordering::Relaxed};
use std::sync::{Condvar, Mutex, MutexGuard};

use super::json::J;
use super::rng::Rng;
use crate::board::transposition_table::{TTEntry, TRANSPOSITION_TABLE};
use crate::board::zkey::ZKey;
use crate::board::Board;
use crate::verif_hooks::{self as vh, Label, Sim, Site};

pub const NT: usize = 200;
pub const NL: usize = 11;
const NONE: usize = usize::MAX;
pub const EOF_SPIN_LIMIT: u64 = 300;
pub const EXIT_ALLOW_TICKS: u64 = 40_000;

#[derive(Clone, Copy, PartialEq, Eq, Debug, Hash)]
#[repr(u8)]
pub enum L {
    FlagLoad = 0,
    FlagStoreT = 1,
    FlagStoreF = 2,
    Spawn = 3,
    IsFinished = 4,
    Join = 5,
    OutBest = 6,
    Out = 7,
    Err = 8,
    StdinRead = 9,
    End = 10,
}

pub const LABEL_NAMES: [&str; NL] = [
    "flag.load",
    "flag.store(true)",
    "flag.store(false)",
    "spawn",
    "handle.is_finished",
    "handle.join",
    "out(bestmove)",
    "out",
    "err",
    "stdin.read",
    "thread.end",
];

impl L {
    pub fn from_u8(x: u8) -> Option<L> {
        Some(match x {
            0 => L::FlagLoad,
            1 => L::FlagStoreT,
            2 => L::FlagStoreF,
            3 => L::Spawn,
            4 => L::IsFinished,
            5 => L::Join,
            6 => L::OutBest,
            7 => L::Out,
            8 => L::Err,
            9 => L::StdinRead,
            10 => L::End,
            _ => return None,
        })
    }
    pub fn name(self) -> &'static str {
        LABEL_NAMES[self as usize]
    }
    pub fn from_name(s: &str) -> Option<L> {
        LABEL_NAMES
            .iter()
            .position(|n| *n == s)
            .and_then(|i| L::from_u8(i as u8))
    }
}

// ------------------------------------------------------------------ plan types

#[derive(Clone, Copy, PartialEq, Eq, Debug)]
pub enum Term {
    Lf,
    CrLf,
    None,
}

#[derive(Clone, PartialEq, Debug)]
pub enum Action {
    /// One line for the engine. `cuts` are byte offsets (into line+terminator) at which
    /// the stream hands out a short read; `eintr` puts one Interrupted error before it.
    Send {
        line: String,
        cuts: Vec<usize>,
        term: Term,
        eintr: bool,
    },
    /// Block until as many `bestmove` lines have appeared as `go` lines were sent.
    WaitBestmove,
    /// Block until no search thread is alive.
    WaitIdle,
    /// Block for `k` yield points of other threads.
    DelaySteps(u64),
    /// Block until the virtual clock has advanced by this many ns.
    DelayNs(u64),
    Eof,
}

impl Action {
    pub fn send(line: impl Into<String>) -> Action {
        Action::Send {
            line: line.into(),
            cuts: vec![],
            term: Term::Lf,
            eintr: false,
        }
    }
    pub fn line(&self) -> Option<&str> {
        match self {
            Action::Send { line, .. } => Some(line),
            _ => None,
        }
    }
    pub fn to_json(&self) -> J {
        match self {
            Action::Send {
                line,
                cuts,
                term,
                eintr,
            } => {
                let mut o = J::obj().set("send", line.as_str());
                if !cuts.is_empty() {
                    o.put("cuts", cuts.clone());
                }
                match term {
                    Term::Lf => {}
                    Term::CrLf => o.put("term", "crlf"),
                    Term::None => o.put("term", "none"),
                }
                if *eintr {
                    o.put("eintr", true);
                }
                o
            }
            Action::WaitBestmove => J::obj().set("wait", "bestmove"),
            Action::WaitIdle => J::obj().set("wait", "idle"),
            Action::DelaySteps(k) => J::obj().set("delay_steps", *k),
            Action::DelayNs(k) => J::obj().set("delay_ns", *k),
            Action::Eof => J::obj().set("eof", true),
        }
    }
    pub fn from_json(j: &J) -> Result<Action, String> {
        if let Some(l) = j.get("send") {
            let term = match j.s("term").as_str() {
                "crlf" => Term::CrLf,
                "none" => Term::None,
                _ => Term::Lf,
            };
            return Ok(Action::Send {
                line: l.as_str().ok_or("send not a string")?.to_string(),
                cuts: j
                    .a("cuts")
                    .iter()
                    .filter_map(J::as_u64)
                    .map(|x| x as usize)
                    .collect(),
                term,
                eintr: j.b("eintr"),
            });
        }
        if let Some(w) = j.get("wait") {
            return match w.as_str() {
                Some("bestmove") => Ok(Action::WaitBestmove),
                Some("idle") => Ok(Action::WaitIdle),
                _ => Err("bad wait".into()),
            };
        }
        if j.get("delay_steps").is_some() {
            return Ok(Action::DelaySteps(j.u("delay_steps")));
        }
        if j.get("delay_ns").is_some() {
            return Ok(Action::DelayNs(j.u("delay_ns")));
        }
        if j.get("eof").is_some() {
            return Ok(Action::Eof);
        }
        Err(format!("unknown action {}", j.to_string()))
    }
}

#[derive(Clone, Copy, PartialEq, Eq, Debug)]
pub struct Preempt {
    pub tid: u8,
    pub label: L,
    pub nth: u32,
    pub to: u8,
    pub hold: u32,
}

impl Preempt {
    pub fn to_json(&self) -> J {
        J::obj()
            .set("tid", self.tid)
            .set("label", self.label.name())
            .set("nth", self.nth)
            .set("to", self.to)
            .set("hold", self.hold)
    }
    pub fn from_json(j: &J) -> Result<Preempt, String> {
        Ok(Preempt {
            tid: j.u("tid") as u8,
            label: L::from_name(&j.s("label")).ok_or("bad label")?,
            nth: j.u("nth") as u32,
            to: j.u("to") as u8,
            hold: j.u("hold") as u32,
        })
    }
}

/// How preemptions are drawn when a run is generated from a seed.
#[derive(Clone, PartialEq, Debug)]
pub enum Policy {
    /// Never preempt (priority schedule only).
    Quiet,
    /// Every yield point preempts with probability p.
    Uniform(f64),
    /// A few preemption points at given global steps (PCT style).
    Points(Vec<u64>),
    /// Hot labels (bit mask over L) preempt with probability 1/2.
    Targeted(u16),
}

#[derive(Clone, Debug)]
pub struct Plan {
    pub prop: String,
    pub seed: u64,
    pub script: Vec<Action>,
    pub cost_ns: u64,
    pub stalls: Vec<(u64, u64)>,
    /// virtual time a context switch costs (scheduling latency fault)
    pub switch_ns: u64,
    pub preempts: Vec<Preempt>,
    /// Some(..) = generation mode: draw preemptions from this policy with `sched_seed`.
    pub policy: Option<Policy>,
    pub sched_seed: u64,
    pub step_cap: u64,
    pub tick_cap: u64,
    pub tt_snapshot: bool,
    /// Property-specific parameters the oracle needs (kept verbatim in replay files).
    pub params: J,
}

impl Plan {
    pub fn new(prop: &str, seed: u64) -> Plan {
        Plan {
            prop: prop.to_string(),
            seed,
            script: vec![],
            cost_ns: 1000,
            stalls: vec![],
            switch_ns: 0,
            preempts: vec![],
            policy: None,
            sched_seed: 0,
            step_cap: 3_000_000,
            tick_cap: 30_000_000,
            tt_snapshot: false,
            params: J::obj(),
        }
    }

    /// Explicit (PRNG-free) form.
    pub fn to_json(&self) -> J {
        J::obj()
            .set("property", self.prop.as_str())
            .set("seed", self.seed)
            .set("script", self.script.iter().map(Action::to_json).collect::<Vec<_>>())
            .set("cost_ns", self.cost_ns)
            .set("switch_ns", self.switch_ns)
            .set(
                "stalls",
                self.stalls
                    .iter()
                    .map(|(t, n)| J::Arr(vec![(*t).into(), (*n).into()]))
                    .collect::<Vec<_>>(),
            )
            .set(
                "preemptions",
                self.preempts.iter().map(Preempt::to_json).collect::<Vec<_>>(),
            )
            .set("step_cap", self.step_cap)
            .set("tick_cap", self.tick_cap)
            .set("tt_snapshot", self.tt_snapshot)
            .set("params", self.params.clone())
    }

    pub fn from_json(j: &J) -> Result<Plan, String> {
        let mut p = Plan::new(&j.s("property"), j.u("seed"));
        for a in j.a("script") {
            p.script.push(Action::from_json(&a)?);
        }
        p.cost_ns = j.u("cost_ns");
        p.switch_ns = j.u("switch_ns");
        for s in j.a("stalls") {
            let a = s.as_arr().ok_or("bad stall")?;
            p.stalls.push((
                a.first().and_then(J::as_u64).ok_or("bad stall")?,
                a.get(1).and_then(J::as_u64).ok_or("bad stall")?,
            ));
        }
        for q in j.a("preemptions") {
            p.preempts.push(Preempt::from_json(&q)?);
        }
        p.step_cap = j.u("step_cap");
        p.tick_cap = j.u("tick_cap");
        p.tt_snapshot = j.b("tt_snapshot");
        p.params = j.get("params").cloned().unwrap_or_else(J::obj);
        p.policy = None;
        Ok(p)
    }
}

// ------------------------------------------------------------------ run record

#[derive(Clone, Debug, PartialEq)]
pub enum EvK {
    Switch { to: u8, label: L, preempt: bool },
    Out(String),
    Err(String),
    Deliver { action: usize, line: String },
    Eintr,
    StdinEof,
    FlagStore(bool),
    Spawn(u8),
    Begin,
    End,
    Panic(String),
    IsFinished(bool),
    Join(u8),
    Session(usize),
    Abort(Site, u8),
    WaitBegin(String),
    WaitEnd,
    Stall(u64),
    MissingBestmove,
    ClockJump(u64),
    InputReturned,
    TtWriteAfterAbort { site: Site, key: String, score: i16, depth: u8, nodes: u64, budget: Option<u64> },
    TtEntryFromUnfinishedNode { key: String, score: i16, depth: u8, nodes: u64, count: u64 },
    TtDiffAfterAbort(u64),
}

#[derive(Clone, Debug)]
pub struct Ev {
    pub step: u64,
    pub tid: u8,
    pub clock: u64,
    pub ticks: u64,
    pub tticks: u64,
    pub tyields: u64,
    /// cumulative injected delay (stalls + switch latencies) so far
    pub stalled: u64,
    pub k: EvK,
}

#[derive(Clone, Copy, PartialEq, Eq, Debug)]
pub enum EndReason {
    InputEnded,
    StepCap,
    TickCap,
    EofSpin,
    Deadlock,
    /// quit / end-of-input was seen, the input thread did not return, and other threads
    /// have meanwhile done more than EXIT_ALLOW_TICKS of work.
    ExitOverdue,
    /// the input thread sat in a join while other threads did more than EXIT_ALLOW_TICKS of work
    InputBlocked,
    /// more simulated threads in one run than the kernel has room for (a harness limit, never a verdict)
    ThreadLimit,
}

#[derive(Clone, Debug)]
pub struct ThreadRec {
    pub begun: bool,
    pub ended: bool,
    pub panicked: Option<String>,
    pub ticks: u64,
    pub yields: u64,
    pub first_abort: Option<(Site, u8, u64)>,
    pub inserts_before_abort: [u64; 3],
    pub inserts_after_abort: u64,
    /// inserts made when the node counter had already reached the node budget
    pub inserts_over_budget: u64,
    /// entries still in the cache at thread end that an interrupted, unfinished node had
    /// published before going on with its moves
    pub entries_from_unfinished_nodes: u64,
    pub abort_sites: [u64; 4],
}

pub struct RunRec {
    pub events: Vec<Ev>,
    pub boards: Vec<Board>,
    pub fired: Vec<Preempt>,
    pub end: EndReason,
    pub steps: u64,
    pub ticks: u64,
    pub clock: u64,
    pub stall_ns: u64,
    pub trace_hash: u64,
    pub threads: Vec<ThreadRec>,
    pub label_counts: [[u64; NL]; NT],
    pub switches: u64,
    pub switch_hash: u64,
    pub eof_reads: u64,
    pub stalls_fired: u64,
    pub clock_jumps: u64,
    /// explicit (replayed) preemptions that actually switched threads
    pub preempts_applied: u64,
}

// ---------------------------------------------------------------------- kernel

#[derive(Clone, PartialEq, Debug)]
enum Cond {
    Bestmove(u64),
    Idle,
    Step(u64),
    Clock(u64),
    Join(usize),
}

#[derive(Clone, PartialEq, Debug)]
enum Status {
    Runnable,
    Blocked(Cond),
    Ended,
}

struct TState {
    status: Status,
    rec: ThreadRec,
    tt_snap: Option<TtSnap>,
}

struct State {
    active: bool,
    current: usize,
    abort: bool,
    ended: Option<EndReason>,
    threads: Vec<TState>,
    os_handles: Vec<std::thread::JoinHandle<()>>,
    step: u64,
    hold: u32,
    events: Vec<Ev>,
    boards: Vec<Board>,
    trace_hash: u64,
    switch_hash: u64,
    switches: u64,
    occ: [[u32; NL]; NT],
    label_counts: [[u64; NL]; NT],
    // plan
    script: Vec<Action>,
    pc: usize,
    chunks: VecDeque<Vec<u8>>,
    pending_eintr: bool,
    replay: [[VecDeque<Preempt>; NL]; NT],
    policy: Option<Policy>,
    sched: Rng,
    next_uniform: u64,
    fired: Vec<Preempt>,
    stalls: VecDeque<(u64, u64)>,
    step_cap: u64,
    tt_snapshot: bool,
    // gui bookkeeping
    gos_sent: u64,
    bestmoves: u64,
    missing_credit: u64,
    eof_reads: u64,
    eof_logged: bool,
    stall_ns: u64,
    stalls_fired: u64,
    clock_jumps: u64,
    deliveries: u64,
    exit_req_ticks: Option<u64>,
    /// ticks at the moment the input thread blocked (None while it is not blocked)
    t0_blocked_ticks: Option<u64>,
    t0_in_join: bool,
    preempts_applied: u64,
}

pub struct Kernel {
    m: Mutex<Option<State>>,
    cv: Condvar,
    done: Condvar,
    clock: AtomicU64,
    ticks: AtomicU64,
    tticks: [AtomicU64; NT],
    cost_ns: AtomicU64,
    switch_ns: AtomicU64,
    stalled: AtomicU64,
    next_stall_tick: AtomicU64,
    tick_cap: AtomicU64,
    tick_cap_hit: AtomicBool,
    cur: AtomicUsize,
}

thread_local! {
    static TID: Cell<usize> = const { Cell::new(NONE) };
    static LAST_PANIC: Cell<Option<String>> = const { Cell::new(None) };
    static NODES: std::cell::RefCell<NodeTrack> = std::cell::RefCell::new(NodeTrack::default());
}

/// C13, open nodes. The engine brackets its work on one node of the search tree with
/// `node_enter` / `node_exit` (a scope object dropped on every way out). A node that has
/// written a cache entry and then goes on to make another move has *published* an interim
/// value; that is harmless if the node finishes and writes again, but if the search is
/// interrupted and the node is left without another write, the interim value - computed from
/// a part of the node's moves - stays in the cache. Writes made outside any node scope (the
/// root, which legitimately writes at the end of every iteration) are not tracked.
#[derive(Default)]
struct NodeTrack {
    seq: u64,
    aborted: bool,
    /// per open node: what it last wrote (key, insert sequence number, score, depth, node
    /// counter) and whether it made another move afterwards
    open: Vec<(Option<(ZKey, u64, i16, u8, u64)>, bool)>,
    last_insert: std::collections::HashMap<ZKey, u64>,
    /// entries published by nodes that were left because of an interruption
    candidates: Vec<(ZKey, u64, i16, u8, u64)>,
}

struct AbortRun;

pub static KERNEL: Kernel = Kernel::new();

fn empty_replay() -> [[VecDeque<Preempt>; NL]; NT] {
    std::array::from_fn(|_| std::array::from_fn(|_| VecDeque::new()))
}

fn new_trec() -> ThreadRec {
    ThreadRec {
        begun: false,
        ended: false,
        panicked: None,
        ticks: 0,
        yields: 0,
        first_abort: None,
        inserts_before_abort: [0; 3],
        inserts_after_abort: 0,
        inserts_over_budget: 0,
        entries_from_unfinished_nodes: 0,
        abort_sites: [0; 4],
    }
}

pub fn install() {
    static ONCE: std::sync::Once = std::sync::Once::new();
    ONCE.call_once(|| {
        std::panic::set_hook(Box::new(|info| {
            let msg = if let Some(s) = info.payload().downcast_ref::<&str>() {
                (*s).to_string()
            } else if let Some(s) = info.payload().downcast_ref::<String>() {
                s.clone()
            } else {
                "<non-string panic>".to_string()
            };
            let loc = info
                .location()
                .map(|l| format!("{}:{}", l.file().rsplit('/').next().unwrap_or(""), l.line()))
                .unwrap_or_default();
            if TID.with(Cell::get) == NONE {
                eprintln!("harness panic: {msg} at {loc}");
            }
            LAST_PANIC.with(|p| p.set(Some(format!("{msg} @ {loc}"))));
        }));
        vh::install(&KERNEL);
        crate::board::zkey::ZTable::init();
    });
}

// The cache is touched only through `clear`, `len` and `iter` so that the harness keeps
// compiling when the table's concrete type is refactored.
pub fn clear_tt() {
    let mut g = match TRANSPOSITION_TABLE.write() {
        Ok(g) => g,
        Err(p) => {
            TRANSPOSITION_TABLE.clear_poison();
            p.into_inner()
        }
    };
    g.clear();
}

pub fn tt_len() -> usize {
    match TRANSPOSITION_TABLE.read() {
        Ok(g) => g.len(),
        Err(p) => p.into_inner().len(),
    }
}

type TtSnap = std::collections::HashMap<ZKey, TTEntry>;

fn tt_clone() -> TtSnap {
    let g = match TRANSPOSITION_TABLE.read() {
        Ok(g) => g,
        Err(p) => p.into_inner(),
    };
    g.iter().map(|(k, v)| (*k, *v)).collect()
}

fn tt_diff(old: &TtSnap) -> u64 {
    let g = match TRANSPOSITION_TABLE.read() {
        Ok(g) => g,
        Err(p) => p.into_inner(),
    };
    let mut n = 0;
    for (k, v) in g.iter() {
        if old.get(k) != Some(v) {
            n += 1;
        }
    }
    n
}

fn site_idx(site: Site) -> usize {
    match site {
        Site::Root => 0,
        Site::AlphaBetaCutoff => 1,
        Site::AlphaBetaEnd => 2,
        Site::AlphaBetaEntry => 0,
        Site::QuiescenceEntry => 1,
        Site::RootAfterChild => 2,
        Site::AlphaBetaAfterChild => 0,
    }
}

impl Kernel {
    const fn new() -> Self {
        Self {
            m: Mutex::new(None),
            cv: Condvar::new(),
            done: Condvar::new(),
            clock: AtomicU64::new(0),
            ticks: AtomicU64::new(0),
            tticks: [const { AtomicU64::new(0) }; NT],
            cost_ns: AtomicU64::new(1000),
            switch_ns: AtomicU64::new(0),
            stalled: AtomicU64::new(0),
            next_stall_tick: AtomicU64::new(u64::MAX),
            tick_cap: AtomicU64::new(u64::MAX),
            tick_cap_hit: AtomicBool::new(false),
            cur: AtomicUsize::new(NONE),
        }
    }

    fn lock(&self) -> MutexGuard<'_, Option<State>> {
        match self.m.lock() {
            Ok(g) => g,
            Err(p) => p.into_inner(),
        }
    }

    // ---------------------------------------------------------------- driving

    /// Execute one plan; returns the full record. Must be called from a non-simulated thread.
    pub fn run(&'static self, plan: &Plan, keep_tt: bool) -> RunRec {
        install();
        if !keep_tt {
            clear_tt();
        }
        let mut replay = empty_replay();
        if plan.policy.is_none() {
            let mut ps = plan.preempts.clone();
            ps.sort_by_key(|p| p.nth);
            for p in ps {
                if (p.tid as usize) < NT {
                    replay[p.tid as usize][p.label as usize].push_back(p);
                }
            }
        }
        let mut stalls: Vec<(u64, u64)> = plan.stalls.clone();
        stalls.sort();
        let mut sched = Rng::new(plan.sched_seed);
        let next_uniform = match &plan.policy {
            Some(Policy::Uniform(p)) => sched.geometric(*p) + 1,
            _ => u64::MAX,
        };
        let st = State {
            active: true,
            current: 0,
            abort: false,
            ended: None,
            threads: vec![TState {
                status: Status::Runnable,
                rec: new_trec(),
                tt_snap: None,
            }],
            os_handles: vec![],
            step: 0,
            hold: 0,
            events: Vec::with_capacity(256),
            boards: vec![],
            trace_hash: 0x1234_5678_9abc_def0,
            switch_hash: 0xfeed_beef_0bad_cafe,
            switches: 0,
            occ: [[0; NL]; NT],
            label_counts: [[0; NL]; NT],
            script: plan.script.clone(),
            pc: 0,
            chunks: VecDeque::new(),
            pending_eintr: false,
            replay,
            policy: plan.policy.clone(),
            sched,
            next_uniform,
            fired: vec![],
            stalls: stalls.iter().copied().collect(),
            step_cap: plan.step_cap,
            tt_snapshot: plan.tt_snapshot,
            gos_sent: 0,
            bestmoves: 0,
            missing_credit: 0,
            eof_reads: 0,
            eof_logged: false,
            stall_ns: 0,
            stalls_fired: 0,
            clock_jumps: 0,
            deliveries: 0,
            exit_req_ticks: None,
            t0_blocked_ticks: None,
            t0_in_join: false,
            preempts_applied: 0,
        };
        self.clock.store(0, Relaxed);
        self.ticks.store(0, Relaxed);
        for t in &self.tticks {
            t.store(0, Relaxed);
        }
        self.cost_ns.store(plan.cost_ns.max(1), Relaxed);
        self.switch_ns.store(plan.switch_ns, Relaxed);
        self.stalled.store(0, Relaxed);
        self.next_stall_tick
            .store(stalls.first().map_or(u64::MAX, |s| s.0), Relaxed);
        self.tick_cap.store(plan.tick_cap, Relaxed);
        self.tick_cap_hit.store(false, Relaxed);
        self.cur.store(0, Relaxed);
        {
            let mut g = self.lock();
            *g = Some(st);
            // T0: the input thread running the real uci_loop.
            let h = std::thread::Builder::new()
                .name("sim-T0".into())
                .stack_size(16 << 20)
                .spawn(move || {
                    self.thread_main(0, Box::new(|| {
                        let mut input = SimStdin::new();
                        crate::uci::verif_run_session(&mut input);
                    }));
                })
                .expect("spawn T0");
            g.as_mut().unwrap().os_handles.push(h);
        }
        // Wait for the run to end.
        let mut g = self.lock();
        while g.as_ref().unwrap().ended.is_none() {
            g = match self.done.wait(g) {
                Ok(g) => g,
                Err(p) => p.into_inner(),
            };
        }
        let handles: Vec<_> = std::mem::take(&mut g.as_mut().unwrap().os_handles);
        g.as_mut().unwrap().abort = true;
        self.cv.notify_all();
        drop(g);
        for h in handles {
            let _ = h.join();
        }
        // A thread spawned in the last instant may have pushed another handle.
        loop {
            let more: Vec<_> = {
                let mut g = self.lock();
                std::mem::take(&mut g.as_mut().unwrap().os_handles)
            };
            if more.is_empty() {
                break;
            }
            for h in more {
                let _ = h.join();
            }
        }
        let mut g = self.lock();
        let st = g.take().unwrap();
        self.cur.store(NONE, Relaxed);
        let mut threads: Vec<ThreadRec> = st.threads.into_iter().map(|t| t.rec).collect();
        for (i, t) in threads.iter_mut().enumerate() {
            t.ticks = self.tticks[i].load(Relaxed);
            t.yields = st.label_counts[i].iter().sum();
        }
        RunRec {
            events: st.events,
            boards: st.boards,
            fired: st.fired,
            end: st.ended.unwrap(),
            steps: st.step,
            ticks: self.ticks.load(Relaxed),
            clock: self.clock.load(Relaxed),
            stall_ns: st.stall_ns,
            trace_hash: st.trace_hash,
            threads,
            label_counts: st.label_counts,
            switches: st.switches,
            switch_hash: st.switch_hash,
            eof_reads: st.eof_reads,
            stalls_fired: st.stalls_fired,
            clock_jumps: st.clock_jumps,
            preempts_applied: st.preempts_applied,
        }
    }

    fn thread_main(&'static self, tid: usize, f: Box<dyn FnOnce() + Send + 'static>) {
        TID.with(|t| t.set(tid));
        NODES.with(|n| *n.borrow_mut() = NodeTrack::default());
        // Wait until scheduled for the first time.
        {
            let g = self.lock();
            let mut g = match self.wait_cpu(g, tid) {
                Some(g) => g,
                None => {
                    self.thread_exit(tid, None, true);
                    return;
                }
            };
            let st = g.as_mut().unwrap();
            st.threads[tid].rec.begun = true;
            self.push_ev(st, tid, EvK::Begin);
        }
        let r = std::panic::catch_unwind(std::panic::AssertUnwindSafe(f));
        match r {
            Ok(()) => self.thread_exit(tid, None, false),
            Err(p) => {
                if p.downcast_ref::<AbortRun>().is_some() {
                    self.thread_exit(tid, None, true);
                } else {
                    let msg = LAST_PANIC
                        .with(Cell::take)
                        .unwrap_or_else(|| "<unknown panic>".into());
                    self.thread_exit(tid, Some(msg), false);
                }
            }
        }
    }

    /// Wait until `me` holds the CPU. None = the run is being torn down.
    fn wait_cpu<'a>(
        &'a self,
        mut g: MutexGuard<'a, Option<State>>,
        me: usize,
    ) -> Option<MutexGuard<'a, Option<State>>> {
        loop {
            {
                let st = g.as_ref().unwrap();
                if st.abort {
                    return None;
                }
                if st.current == me {
                    return Some(g);
                }
            }
            g = match self.cv.wait(g) {
                Ok(g) => g,
                Err(p) => p.into_inner(),
            };
        }
    }

    fn thread_exit(&self, tid: usize, panicked: Option<String>, aborted: bool) {
        let mut g = self.lock();
        let st = g.as_mut().unwrap();
        if aborted || st.abort {
            return;
        }
        if let Some(msg) = panicked {
            st.threads[tid].rec.panicked = Some(msg.clone());
            self.push_ev(st, tid, EvK::Panic(msg));
        }
        // C13: did an interrupted, unfinished node leave an interim entry behind?
        let cands: Vec<(ZKey, u64, i16, u8, u64)> = NODES.with(|n| {
            let mut n = n.borrow_mut();
            let last = std::mem::take(&mut n.last_insert);
            n.candidates
                .drain(..)
                .filter(|c| last.get(&c.0) == Some(&c.1))
                .collect()
        });
        if !cands.is_empty() {
            let present = tt_clone();
            let left: Vec<&(ZKey, u64, i16, u8, u64)> = cands.iter().filter(|c| present.contains_key(&c.0)).collect();
            if let Some(f) = left.first() {
                st.threads[tid].rec.entries_from_unfinished_nodes = left.len() as u64;
                self.push_ev(
                    st,
                    tid,
                    EvK::TtEntryFromUnfinishedNode {
                        key: f.0.to_string(),
                        score: f.2,
                        depth: f.3,
                        nodes: f.4,
                        count: left.len() as u64,
                    },
                );
            }
        }
        // C13: what did this thread leave behind after it saw an interruption?
        if let Some(snap) = st.threads[tid].tt_snap.take() {
            let d = tt_diff(&snap);
            self.push_ev(st, tid, EvK::TtDiffAfterAbort(d));
        }
        st.threads[tid].status = Status::Ended;
        st.threads[tid].rec.ended = true;
        self.push_ev(st, tid, EvK::End);
        if tid == 0 {
            self.push_ev(st, tid, EvK::InputReturned);
            self.end_run(st, EndReason::InputEnded);
            return;
        }
        st.hold = 0;
        self.reevaluate(st);
        self.dispatch(st, tid, L::End, false);
    }

    fn end_run(&self, st: &mut State, why: EndReason) {
        if st.ended.is_none() {
            st.ended = Some(why);
        }
        st.abort = true;
        self.cv.notify_all();
        self.done.notify_all();
    }

    fn push_ev(&self, st: &mut State, tid: usize, k: EvK) {
        let ev = Ev {
            step: st.step,
            tid: tid as u8,
            clock: self.clock.load(Relaxed),
            ticks: self.ticks.load(Relaxed),
            tticks: self.tticks[tid.min(NT - 1)].load(Relaxed),
            tyields: st.label_counts[tid.min(NT - 1)].iter().sum(),
            stalled: self.stalled.load(Relaxed),
            k,
        };
        st.events.push(ev);
    }

    fn alive_searches(st: &State) -> usize {
        st.threads
            .iter()
            .enumerate()
            .filter(|(i, t)| *i != 0 && t.status != Status::Ended)
            .count()
    }

    fn cond_met(&self, st: &State, c: &Cond) -> bool {
        match c {
            Cond::Bestmove(n) => st.bestmoves + st.missing_credit >= *n,
            Cond::Idle => Self::alive_searches(st) == 0,
            Cond::Step(s) => st.step >= *s,
            Cond::Clock(t) => self.clock.load(Relaxed) >= *t,
            Cond::Join(t) => st.threads[*t].status == Status::Ended,
        }
    }

    fn reevaluate(&self, st: &mut State) {
        for i in 0..st.threads.len() {
            if let Status::Blocked(c) = &st.threads[i].status {
                if self.cond_met(st, c) {
                    st.threads[i].status = Status::Runnable;
                    if i == 0 {
                        self.push_ev(st, 0, EvK::WaitEnd);
                    }
                }
            }
        }
    }

    fn lowest_runnable(st: &State) -> Option<usize> {
        st.threads
            .iter()
            .position(|t| t.status == Status::Runnable)
    }

    /// Nothing is runnable: advance time / resolve GUI waits that can never be met.
    /// Returns the thread to run, or None if the run is over.
    fn resolve_idle(&self, st: &mut State) -> Option<usize> {
        loop {
            if let Some(t) = Self::lowest_runnable(st) {
                return Some(t);
            }
            let mut progressed = false;
            for i in 0..st.threads.len() {
                let c = match &st.threads[i].status {
                    Status::Blocked(c) => c.clone(),
                    _ => continue,
                };
                match c {
                    Cond::Clock(t) => {
                        let now = self.clock.load(Relaxed);
                        if t > now {
                            self.clock.store(t, Relaxed);
                            st.clock_jumps += 1;
                            self.push_ev(st, i, EvK::ClockJump(t - now));
                        }
                        progressed = true;
                    }
                    Cond::Step(_) => {
                        // Nobody else can take steps: the delay is over.
                        st.threads[i].status = Status::Runnable;
                        if i == 0 {
                            self.push_ev(st, i, EvK::WaitEnd);
                        }
                        progressed = true;
                    }
                    Cond::Bestmove(_) => {
                        if Self::alive_searches(st) == 0 {
                            self.push_ev(st, i, EvK::MissingBestmove);
                            st.missing_credit += 1;
                            st.threads[i].status = Status::Runnable;
                            self.push_ev(st, i, EvK::WaitEnd);
                            progressed = true;
                        }
                    }
                    Cond::Idle | Cond::Join(_) => {}
                }
                if progressed {
                    break;
                }
            }
            if !progressed {
                return None;
            }
            self.reevaluate(st);
        }
    }

    /// Hand the CPU to the right thread after `me` stopped being able to run
    /// (blocked or ended). Does not wait.
    fn dispatch(&self, st: &mut State, me: usize, label: L, _blocked: bool) {
        match self.resolve_idle(st) {
            Some(t) => {
                if t != me {
                    self.note_switch(st, me, t, label, false);
                }
                st.current = t;
                self.cur.store(t, Relaxed);
                self.cv.notify_all();
            }
            None => self.end_run(st, EndReason::Deadlock),
        }
    }

    fn note_switch(&self, st: &mut State, from: usize, to: usize, label: L, preempt: bool) {
        st.switches += 1;
        let lat = self.switch_ns.load(Relaxed);
        if lat > 0 {
            self.clock.fetch_add(lat, Relaxed);
            self.stalled.fetch_add(lat, Relaxed);
        }
        let mut x = st.switch_hash ^ ((from as u64) << 40 | (label as u64) << 32 | to as u64);
        st.switch_hash = super::rng::splitmix64(&mut x);
        self.push_ev(
            st,
            from,
            EvK::Switch {
                to: to as u8,
                label,
                preempt,
            },
        );
    }

    /// Draw (generation) or look up (replay) a preemption for this yield point.
    fn preemption(&self, st: &mut State, me: usize, label: L, occ: u32) -> Option<(usize, u32)> {
        let li = label as usize;
        match st.policy.clone() {
            None => {
                let q = &mut st.replay[me][li];
                while q.front().is_some_and(|p| p.nth < occ) {
                    q.pop_front();
                }
                if q.front().is_some_and(|p| p.nth == occ) {
                    let p = q.pop_front().unwrap();
                    let to = p.to as usize;
                    if to < st.threads.len() && to != me && st.threads[to].status == Status::Runnable {
                        st.preempts_applied += 1;
                        return Some((to, p.hold));
                    }
                }
                None
            }
            Some(pol) => {
                let fire = match &pol {
                    Policy::Quiet => false,
                    Policy::Uniform(p) => {
                        if st.step >= st.next_uniform {
                            st.next_uniform = st.step + st.sched.geometric(*p) + 1;
                            true
                        } else {
                            false
                        }
                    }
                    Policy::Points(ps) => ps.contains(&st.step),
                    Policy::Targeted(mask) => {
                        (mask >> li) & 1 == 1 && (label != L::FlagLoad || occ <= 3) && st.sched.chance(1, 2)
                    }
                };
                if !fire {
                    return None;
                }
                let others: Vec<usize> = (0..st.threads.len())
                    .filter(|&t| t != me && st.threads[t].status == Status::Runnable)
                    .collect();
                if others.is_empty() {
                    return None;
                }
                let to = others[st.sched.usize_below(others.len())];
                // Bounded: an unbounded hold would be an unfair scheduler (starvation is
                // not something a real OS does to the input thread).
                let hold = match st.sched.below(8) {
                    0 => 0,
                    1 => 1,
                    2 => 3,
                    3 => 10,
                    4 => 100,
                    5 => 1000,
                    6 => 5000,
                    _ => 20_000,
                };
                st.fired.push(Preempt {
                    tid: me as u8,
                    label,
                    nth: occ,
                    to: to as u8,
                    hold,
                });
                Some((to, hold))
            }
        }
    }

    /// A scheduling point of simulated thread `me`, which holds the CPU.
    fn yield_now(&self, label: L) {
        let me = TID.with(Cell::get);
        if me == NONE {
            return;
        }
        let mut g = self.lock();
        let Some(st) = g.as_mut() else { return };
        if st.abort {
            drop(g);
            std::panic::resume_unwind(Box::new(AbortRun));
        }
        st.step += 1;
        let li = label as usize;
        st.occ[me][li] += 1;
        st.label_counts[me][li] += 1;
        let occ = st.occ[me][li];
        let mut x = st.trace_hash ^ (st.step << 16 | (me as u64) << 8 | li as u64);
        st.trace_hash = super::rng::splitmix64(&mut x);
        if st.step > st.step_cap {
            self.end_run(st, EndReason::StepCap);
            drop(g);
            std::panic::resume_unwind(Box::new(AbortRun));
        }
        if self.tick_cap_hit.load(Relaxed) {
            self.end_run(st, EndReason::TickCap);
            drop(g);
            std::panic::resume_unwind(Box::new(AbortRun));
        }
        // Only time during which the input thread is BLOCKED counts (a runnable thread that the
        // scheduler keeps waiting is the scheduler's doing, not the engine's).
        if let Some(b) = st.t0_blocked_ticks {
            let since = st.exit_req_ticks.map_or(b, |req| b.max(req));
            if me != 0 && self.ticks.load(Relaxed).saturating_sub(since) > EXIT_ALLOW_TICKS {
                let why = if st.exit_req_ticks.is_some() {
                    EndReason::ExitOverdue
                } else if st.t0_in_join {
                    EndReason::InputBlocked
                } else {
                    // a GUI wait (not the engine's doing): nothing to report
                    EndReason::StepCap
                };
                if why != EndReason::StepCap {
                    self.end_run(st, why);
                    drop(g);
                    std::panic::resume_unwind(Box::new(AbortRun));
                }
            }
        }
        if st.threads.len() == 1 {
            return; // nobody to switch to, nothing blocked on us
        }
        self.reevaluate(st);
        let next = if let Some((to, hold)) = self.preemption(st, me, label, occ) {
            st.hold = hold;
            self.note_switch(st, me, to, label, true);
            to
        } else if st.hold > 0 {
            st.hold -= 1;
            me
        } else {
            let t = Self::lowest_runnable(st).unwrap_or(me);
            if t != me {
                self.note_switch(st, me, t, label, false);
            }
            t
        };
        if next != me {
            st.current = next;
            self.cur.store(next, Relaxed);
            self.cv.notify_all();
            if self.wait_cpu(g, me).is_none() {
                std::panic::resume_unwind(Box::new(AbortRun));
            }
        }
    }

    /// Block simulated thread `me` until `cond` holds.
    fn block_on(&self, cond: Cond, label: L, what: &str) {
        let me = TID.with(Cell::get);
        let mut g = self.lock();
        let st = g.as_mut().unwrap();
        if st.abort {
            drop(g);
            std::panic::resume_unwind(Box::new(AbortRun));
        }
        if self.cond_met(st, &cond) {
            return;
        }
        if me == 0 {
            self.push_ev(st, me, EvK::WaitBegin(what.to_string()));
            st.t0_blocked_ticks = Some(self.ticks.load(Relaxed));
            st.t0_in_join = matches!(cond, Cond::Join(_));
        }
        st.threads[me].status = Status::Blocked(cond);
        st.hold = 0;
        self.dispatch(st, me, label, true);
        match self.wait_cpu(g, me) {
            None => std::panic::resume_unwind(Box::new(AbortRun)),
            Some(mut g) => {
                if me == 0 {
                    if let Some(st) = g.as_mut() {
                        st.t0_blocked_ticks = None;
                        st.t0_in_join = false;
                    }
                }
            }
        }
    }

    // ----------------------------------------------------------- scripted GUI

    fn stdin_next(&self) -> StdinItem {
        loop {
            self.yield_now(L::StdinRead);
            let mut g = self.lock();
            let st = g.as_mut().unwrap();
            if st.pending_eintr {
                st.pending_eintr = false;
                self.push_ev(st, 0, EvK::Eintr);
                return StdinItem::Interrupted;
            }
            if let Some(c) = st.chunks.pop_front() {
                return StdinItem::Chunk(c);
            }
            let act = st.script.get(st.pc).cloned().unwrap_or(Action::Eof);
            match act {
                Action::Eof => {
                    st.eof_reads += 1;
                    if !st.eof_logged {
                        st.eof_logged = true;
                        st.exit_req_ticks = Some(self.ticks.load(Relaxed));
                        self.push_ev(st, 0, EvK::StdinEof);
                    }
                    if st.eof_reads > EOF_SPIN_LIMIT {
                        self.end_run(st, EndReason::EofSpin);
                        drop(g);
                        std::panic::resume_unwind(Box::new(AbortRun));
                    }
                    return StdinItem::Eof;
                }
                Action::Send {
                    line,
                    cuts,
                    term,
                    eintr,
                } => {
                    let idx = st.pc;
                    st.pc += 1;
                    let mut bytes = line.clone().into_bytes();
                    match term {
                        Term::Lf => bytes.push(b'\n'),
                        Term::CrLf => bytes.extend_from_slice(b"\r\n"),
                        Term::None => {}
                    }
                    let mut cs: Vec<usize> =
                        cuts.iter().copied().filter(|&c| c > 0 && c < bytes.len()).collect();
                    cs.sort_unstable();
                    cs.dedup();
                    let mut prev = 0;
                    for c in cs {
                        st.chunks.push_back(bytes[prev..c].to_vec());
                        prev = c;
                    }
                    if prev < bytes.len() {
                        st.chunks.push_back(bytes[prev..].to_vec());
                    }
                    if line.split_whitespace().next() == Some("go") {
                        st.gos_sent += 1;
                    }
                    if line.split_whitespace().next() == Some("quit") && st.exit_req_ticks.is_none() {
                        st.exit_req_ticks = Some(self.ticks.load(Relaxed));
                    }
                    st.deliveries += 1;
                    self.push_ev(st, 0, EvK::Deliver { action: idx, line });
                    if eintr {
                        st.pending_eintr = true;
                    }
                    continue;
                }
                Action::WaitBestmove => {
                    st.pc += 1;
                    let n = st.gos_sent;
                    drop(g);
                    self.block_on(Cond::Bestmove(n), L::StdinRead, "bestmove");
                }
                Action::WaitIdle => {
                    st.pc += 1;
                    drop(g);
                    self.block_on(Cond::Idle, L::StdinRead, "idle");
                }
                Action::DelaySteps(k) => {
                    st.pc += 1;
                    let target = st.step + k;
                    drop(g);
                    self.block_on(Cond::Step(target), L::StdinRead, "steps");
                }
                Action::DelayNs(k) => {
                    st.pc += 1;
                    let target = self.clock.load(Relaxed) + k;
                    drop(g);
                    self.block_on(Cond::Clock(target), L::StdinRead, "clock");
                }
            }
        }
    }
}

enum StdinItem {
    Chunk(Vec<u8>),
    Eof,
    Interrupted,
}

/// The stream handed to the real `uci_loop`.
pub struct SimStdin {
    buf: Vec<u8>,
    pos: usize,
}

impl SimStdin {
    fn new() -> Self {
        Self {
            buf: Vec::new(),
            pos: 0,
        }
    }
}

impl Read for SimStdin {
    fn read(&mut self, out: &mut [u8]) -> io::Result<usize> {
        let n = {
            let b = self.fill_buf()?;
            let n = b.len().min(out.len());
            out[..n].copy_from_slice(&b[..n]);
            n
        };
        self.consume(n);
        Ok(n)
    }
}

impl BufRead for SimStdin {
    fn fill_buf(&mut self) -> io::Result<&[u8]> {
        if self.pos >= self.buf.len() {
            match KERNEL.stdin_next() {
                StdinItem::Chunk(c) => {
                    self.buf = c;
                    self.pos = 0;
                }
                StdinItem::Eof => {
                    self.buf.clear();
                    self.pos = 0;
                }
                StdinItem::Interrupted => {
                    return Err(io::Error::new(io::ErrorKind::Interrupted, "simulated EINTR"));
                }
            }
        }
        Ok(&self.buf[self.pos..])
    }

    fn consume(&mut self, amt: usize) {
        self.pos = (self.pos + amt).min(self.buf.len());
    }
}

// -------------------------------------------------------------- the Sim seams

impl Sim for Kernel {
    fn yield_point(&self, label: Label) {
        let l = match label {
            Label::FlagLoad => L::FlagLoad,
            Label::FlagStore(true) => L::FlagStoreT,
            Label::FlagStore(false) => L::FlagStoreF,
            Label::Spawn => L::Spawn,
            Label::IsFinished => L::IsFinished,
            Label::Join => L::Join,
        };
        self.yield_now(l);
        // Logged after the scheduling point: nothing can run between here and the store
        // itself, so the event marks the instant the store takes effect.
        if let Label::FlagStore(v) = label {
            let me = TID.with(Cell::get);
            if me != NONE {
                let mut g = self.lock();
                if let Some(st) = g.as_mut() {
                    self.push_ev(st, me, EvK::FlagStore(v));
                }
            }
        }
    }

    fn spawn(&self, f: Box<dyn FnOnce() + Send + 'static>) -> usize {
        let me = TID.with(Cell::get);
        let mut g = self.lock();
        let st = g.as_mut().expect("spawn outside a run");
        let tid = st.threads.len();
        if tid >= NT {
            self.end_run(st, EndReason::ThreadLimit);
            drop(g);
            std::panic::resume_unwind(Box::new(AbortRun));
        }
        st.threads.push(TState {
            status: Status::Runnable,
            rec: new_trec(),
            tt_snap: None,
        });
        self.push_ev(st, me.min(NT - 1), EvK::Spawn(tid as u8));
        let k: &'static Kernel = &KERNEL;
        let h = std::thread::Builder::new()
            .name(format!("sim-T{tid}"))
            .stack_size(32 << 20)
            .spawn(move || k.thread_main(tid, f))
            .expect("spawn sim thread");
        st.os_handles.push(h);
        tid
    }

    fn thread_finished(&self, tid: usize) -> bool {
        let me = TID.with(Cell::get);
        let mut g = self.lock();
        let Some(st) = g.as_mut() else { return true };
        let r = st.threads.get(tid).is_none_or(|t| t.status == Status::Ended);
        self.push_ev(st, me.min(NT - 1), EvK::IsFinished(r));
        r
    }

    fn join(&self, tid: usize) {
        let me = TID.with(Cell::get);
        {
            let mut g = self.lock();
            if let Some(st) = g.as_mut() {
                self.push_ev(st, me.min(NT - 1), EvK::Join(tid as u8));
            }
        }
        if me != NONE {
            self.block_on(Cond::Join(tid), L::Join, "join");
        }
    }

    fn clock_read_ns(&self) -> u64 {
        self.clock.fetch_add(self.cost_ns.load(Relaxed), Relaxed)
    }

    fn node_enter(&self) {
        NODES.with(|n| n.borrow_mut().open.push((None, false)));
    }

    fn node_exit(&self) {
        NODES.with(|n| {
            let mut n = n.borrow_mut();
            if let Some((Some(p), true)) = n.open.pop() {
                if n.aborted {
                    n.candidates.push(p);
                }
            }
        });
    }

    fn work_tick(&self) {
        NODES.with(|n| {
            if let Some(o) = n.borrow_mut().open.last_mut() {
                if o.0.is_some() {
                    o.1 = true;
                }
            }
        });
        let t = self.ticks.fetch_add(1, Relaxed) + 1;
        let cur = self.cur.load(Relaxed);
        if cur < NT {
            self.tticks[cur].fetch_add(1, Relaxed);
        }
        let mut add = self.cost_ns.load(Relaxed);
        if t >= self.next_stall_tick.load(Relaxed) {
            let mut g = self.lock();
            if let Some(st) = g.as_mut() {
                while st.stalls.front().is_some_and(|s| s.0 <= t) {
                    let (_, ns) = st.stalls.pop_front().unwrap();
                    add += ns;
                    st.stall_ns += ns;
                    self.stalled.fetch_add(ns, Relaxed);
                    st.stalls_fired += 1;
                    let who = cur.min(NT - 1);
                    self.push_ev(st, who, EvK::Stall(ns));
                }
                self.next_stall_tick
                    .store(st.stalls.front().map_or(u64::MAX, |s| s.0), Relaxed);
            }
        }
        self.clock.fetch_add(add, Relaxed);
        if t > self.tick_cap.load(Relaxed) {
            self.tick_cap_hit.store(true, Relaxed);
        }
    }

    fn out(&self, line: &str) -> bool {
        let me = TID.with(Cell::get);
        if me == NONE {
            return true; // engine code driven directly by the harness: swallow
        }
        let best = line.starts_with("bestmove");
        {
            let mut g = self.lock();
            if let Some(st) = g.as_mut() {
                if best {
                    st.bestmoves += 1;
                }
                st.trace_hash ^= super::rng::hash_str(line).rotate_left((st.step % 63) as u32);
                self.push_ev(st, me, EvK::Out(line.to_string()));
            }
        }
        self.yield_now(if best { L::OutBest } else { L::Out });
        true
    }

    fn err(&self, line: &str) -> bool {
        let me = TID.with(Cell::get);
        if me == NONE {
            return true;
        }
        {
            let mut g = self.lock();
            if let Some(st) = g.as_mut() {
                st.trace_hash ^= super::rng::hash_str(line).rotate_left((st.step % 61) as u32);
                self.push_ev(st, me, EvK::Err(line.to_string()));
            }
        }
        self.yield_now(L::Err);
        true
    }

    fn session_state(&self, board: &Board) {
        let me = TID.with(Cell::get);
        if me == NONE {
            return;
        }
        let mut g = self.lock();
        if let Some(st) = g.as_mut() {
            let idx = st.boards.len();
            st.boards.push(board.clone());
            self.push_ev(st, me, EvK::Session(idx));
        }
    }

    fn tt_insert(&self, site: Site, key: ZKey, entry: &TTEntry, nodes: u64, budget: Option<u64>, _flag: bool) {
        let me = TID.with(Cell::get);
        if me == NONE {
            return;
        }
        NODES.with(|n| {
            let mut n = n.borrow_mut();
            n.seq += 1;
            let seq = n.seq;
            n.last_insert.insert(key, seq);
            if let Some(o) = n.open.last_mut() {
                *o = (Some((key, seq, entry.score, entry.depth, nodes)), false);
            }
        });
        let mut g = self.lock();
        if let Some(st) = g.as_mut() {
            if budget.is_some_and(|b| nodes >= b) {
                st.threads[me].rec.inserts_over_budget += 1;
            }
            if st.threads[me].rec.first_abort.is_some() {
                st.threads[me].rec.inserts_after_abort += 1;
                if st.threads[me].rec.inserts_after_abort <= 4 {
                    self.push_ev(
                        st,
                        me,
                        EvK::TtWriteAfterAbort {
                            site,
                            key: key.to_string(),
                            score: entry.score,
                            depth: entry.depth,
                            nodes,
                            budget,
                        },
                    );
                }
            } else {
                st.threads[me].rec.inserts_before_abort[site_idx(site)] += 1;
            }
        }
    }

    fn abort_observed(&self, site: Site, ply: u8) {
        let me = TID.with(Cell::get);
        if me == NONE {
            return;
        }
        if ply == u8::MAX {
            return; // the ply cap is a horizon, not an interruption
        }
        NODES.with(|n| n.borrow_mut().aborted = true);
        let mut g = self.lock();
        if let Some(st) = g.as_mut() {
            let si = match site {
                Site::AlphaBetaEntry | Site::AlphaBetaAfterChild => 0,
                Site::QuiescenceEntry => 1,
                Site::RootAfterChild => 2,
                _ => 3,
            };
            st.threads[me].rec.abort_sites[si] += 1;
            if st.threads[me].rec.first_abort.is_none() {
                st.threads[me].rec.first_abort = Some((site, ply, self.ticks.load(Relaxed)));
                self.push_ev(st, me, EvK::Abort(site, ply));
                if st.tt_snapshot {
                    st.threads[me].tt_snap = Some(tt_clone());
                }
            }
        }
    }

    fn flag_false_seen(&self) {}

    fn sleep_ns(&self, ns: u64) {
        self.clock.fetch_add(ns, Relaxed);
    }
}
