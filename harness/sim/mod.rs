//! Deterministic simulation harness for RCE (compiled into the engine crate by build.sh).

pub mod json;
pub mod kernel;
pub mod refmodel;
pub mod rng;

use json::J;
use kernel::{Action, Plan, KERNEL};

pub fn main() {
    let args: Vec<String> = std::env::args().collect();
    let cmd = args.get(1).map(String::as_str).unwrap_or("");
    match cmd {
        "selftest" => match refmodel::selftest() {
            Ok(n) => println!("{}", J::obj().set("selftest", "ok").set("perft_nodes", n).to_string()),
            Err(e) => {
                eprintln!("reference model self-test FAILED: {e}");
                std::process::exit(2);
            }
        },
        "smoke" => {
            let mut plan = Plan::new("smoke", 1);
            plan.script = vec![
                Action::send("uci"),
                Action::send("isready"),
                Action::send("position startpos moves e2e4"),
                Action::send("go depth 3"),
                Action::WaitBestmove,
                Action::send("go infinite"),
                Action::DelaySteps(2000),
                Action::send("stop"),
                Action::WaitBestmove,
                Action::send("quit"),
            ];
            let t0 = std::time::Instant::now();
            let rec = KERNEL.run(&plan, false);
            for e in &rec.events {
                println!("{:>8} T{} clk={} tk={} {:?}", e.step, e.tid, e.clock, e.ticks, e.k);
            }
            println!("end={:?} steps={} ticks={} hash={:x} wall={:?}", rec.end, rec.steps, rec.ticks, rec.trace_hash, t0.elapsed());
        }
        _ => {
            eprintln!("usage: rce_sim selftest|smoke|run|replay ...");
            std::process::exit(2);
        }
    }
}
