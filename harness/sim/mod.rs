//! Deterministic simulation harness for RCE (compiled into the engine crate by build.sh).
//!
//!   rce_sim selftest
//!   rce_sim run <prop> <base_seed> <first> <count> <quick|thorough> [hashfile]
//!   rce_sim replay <file>
//!   rce_sim shrink <prop> <base_seed> <index> <quick|thorough> <out_file>
//!   rce_sim show <prop> <base_seed> <index> <quick|thorough>
//!   rce_sim direct <base_seed> <first> <count>      (C16: same-thread repeated direct calls)

pub mod gen;
pub mod json;
pub mod kernel;
pub mod props;
pub mod refmodel;
pub mod rng;
pub mod session;
pub mod shrink;

use std::io::Write;
use std::sync::atomic::{AtomicU64, Ordering};

use json::J;
use kernel::{EvK, Plan, RunRec, KERNEL};
use props::{Outcome, Stats};

pub fn case_seed(base: u64, prop: &str, index: u64) -> u64 {
    rng::mix(&[base, rng::hash_str(prop), index])
}

/// Execute every plan of a case, each from an empty cache.
pub fn run_case(plans: &[Plan]) -> Vec<RunRec> {
    plans
        .iter()
        .map(|p| {
            let r = KERNEL.run(p, false);
            // every finished run is progress as far as the watchdog is concerned
            PROGRESS.fetch_add(1, Ordering::Relaxed);
            r
        })
        .collect()
}

/// The PRNG-free form of a plan after it has been executed once.
pub fn explicit(plan: &Plan, rec: &RunRec) -> Plan {
    let mut e = plan.clone();
    if plan.policy.is_some() {
        e.preempts = rec.fired.clone();
    }
    e.policy = None;
    e
}

pub fn case_digest(plans: &[Plan]) -> u64 {
    let mut parts = vec![];
    for p in plans {
        parts.push(rng::hash_str(&p.to_json().to_string()));
    }
    rng::mix(&parts)
}

fn events_json(rec: &RunRec, limit: usize) -> J {
    let mut v = vec![];
    for e in rec.events.iter().take(limit) {
        v.push(J::Str(format!(
            "step={} T{} clk={}ns ticks={} {:?}",
            e.step, e.tid, e.clock, e.ticks, e.k
        )));
    }
    if rec.events.len() > limit {
        v.push(J::Str(format!("... {} more events", rec.events.len() - limit)));
    }
    J::Arr(v)
}

pub fn replay_file_json(prop: &str, plans: &[Plan], out: &Outcome, recs: &[RunRec]) -> J {
    J::obj()
        .set("property", prop)
        .set("plans", plans.iter().map(Plan::to_json).collect::<Vec<_>>())
        .set(
            "violations",
            out.violations.iter().map(props::Violation::to_json).collect::<Vec<_>>(),
        )
        .set(
            "trace_hashes",
            recs.iter().map(|r| format!("{:016x}", r.trace_hash)).collect::<Vec<_>>(),
        )
        .set(
            "event_log",
            recs.iter().map(|r| events_json(r, 400)).collect::<Vec<_>>(),
        )
}

static PROGRESS: AtomicU64 = AtomicU64::new(0);
static CUR_INDEX: AtomicU64 = AtomicU64::new(0);

fn start_watchdog(limit_s: u64) {
    let limit_s = std::env::var("VERIF_WATCHDOG_S")
        .ok()
        .and_then(|v| v.parse().ok())
        .unwrap_or(limit_s);
    std::thread::spawn(move || {
        let mut last = PROGRESS.load(Ordering::Relaxed);
        let mut since = std::time::Instant::now();
        loop {
            std::thread::sleep(std::time::Duration::from_millis(500));
            let now = PROGRESS.load(Ordering::Relaxed);
            if now != last {
                last = now;
                since = std::time::Instant::now();
            } else if since.elapsed().as_secs() >= limit_s {
                let i = CUR_INDEX.load(Ordering::Relaxed);
                println!("{}", J::obj().set("wedged", J::obj().set("index", i)).to_string());
                let _ = std::io::stdout().flush();
                std::process::exit(3);
            }
        }
    });
}

fn sample_json(prop: &str, index: u64, plans: &[Plan], recs: &[RunRec]) -> J {
    let mut runs = vec![];
    for (p, r) in plans.iter().zip(recs) {
        let script: Vec<J> = p.script.iter().map(kernel::Action::to_json).collect();
        let mut outs = vec![];
        for e in &r.events {
            match &e.k {
                EvK::Out(t) | EvK::Err(t) => {
                    let t: String = t.chars().take(100).collect();
                    outs.push(J::Str(format!("step {} T{}: {}", e.step, e.tid, t)));
                }
                EvK::Switch { to, label, preempt } => outs.push(J::Str(format!(
                    "step {} T{} -> T{} at {}{}",
                    e.step,
                    e.tid,
                    to,
                    label.name(),
                    if *preempt { " (preemption)" } else { "" }
                ))),
                _ => {}
            }
            if outs.len() >= 40 {
                break;
            }
        }
        runs.push(
            J::obj()
                .set("script", script)
                .set("cost_ns", p.cost_ns)
                .set("stalls", p.stalls.len())
                .set("policy", gen::policy_name(&p.policy))
                .set("preemptions_fired", r.fired.len())
                .set("steps", r.steps)
                .set("ticks", r.ticks)
                .set("end", format!("{:?}", r.end))
                .set("trace", outs),
        );
    }
    J::obj().set("property", prop).set("index", index).set("runs", runs)
}

fn cmd_run(args: &[String]) {
    let prop = args[2].as_str();
    let base: u64 = args[3].parse().expect("base seed");
    let first: u64 = args[4].parse().expect("first");
    let count: u64 = args[5].parse().expect("count");
    let thorough = args.get(6).map(String::as_str) == Some("thorough");
    let hashfile = args.get(7).cloned();
    // indices are first, first+stride, first+2*stride, ... (count of them)
    let stride: u64 = args.get(8).and_then(|v| v.parse().ok()).unwrap_or(1).max(1);
    let budget_s: f64 = std::env::var("VERIF_BUDGET_S")
        .ok()
        .and_then(|s| s.parse().ok())
        .unwrap_or(1e12);
    start_watchdog(300);
    let t0 = std::time::Instant::now();
    let mut stats = Stats::default();
    let mut digests: Vec<u64> = vec![];
    let mut inter: Vec<u64> = vec![];
    let mut done = 0u64;
    let mut violating = 0u64;
    let mut samples = vec![];
    let stdout = std::io::stdout();
    let mut progress_file = hashfile
        .as_ref()
        .and_then(|h| std::fs::File::create(format!("{h}.progress")).ok());
    for k in 0..count {
        let index = first + k * stride;
        if t0.elapsed().as_secs_f64() > budget_s {
            break;
        }
        CUR_INDEX.store(index, Ordering::Relaxed);
        // leave a trace of where we are, in case the process is killed (out of memory, abort)
        if let Some(f) = progress_file.as_mut() {
            use std::io::{Seek, SeekFrom};
            let _ = f.seek(SeekFrom::Start(0));
            let _ = write!(f, "{index:<20}");
        }
        let seed = case_seed(base, prop, index);
        let plans = props::generate(prop, &props::GenCtx { seed, index, thorough });
        if plans.is_empty() {
            PROGRESS.fetch_add(1, Ordering::Relaxed);
            continue;
        }
        let recs = run_case(&plans);
        let out = props::check(prop, &plans, &recs);
        stats.merge(&out.stats);
        done += 1;
        let expl: Vec<Plan> = plans.iter().zip(&recs).map(|(p, r)| explicit(p, r)).collect();
        if out.nontrivial {
            digests.push(case_digest(&expl));
        }
        for r in &recs {
            inter.push(r.switch_hash);
        }
        // Periodic self-check: the explicit (PRNG-free) plan must reproduce the run exactly.
        let huge = plans.iter().any(|p| p.params.b("grown_cache"));
        if index % 64 == 0 && prop != "C16" && !huge {
            // (C16's own oracle is exactly this comparison; a mismatch there is a verdict, not a harness fault)
            let recs2 = run_case(&expl);
            for (a, b) in recs.iter().zip(&recs2) {
                if a.trace_hash != b.trace_hash {
                    println!(
                        "{}",
                        J::obj()
                            .set(
                                "determinism_failure",
                                J::obj().set("index", index).set("seed", seed)
                            )
                            .to_string()
                    );
                    std::process::exit(2);
                }
            }
            stats.inc("selfcheck.explicit_replays_identical");
        }
        if !out.violations.is_empty() {
            violating += 1;
            let kinds: Vec<J> = out.violations.iter().map(|v| J::Str(v.kind.clone())).collect();
            let line = J::obj().set(
                "violation",
                J::obj()
                    .set("index", index)
                    .set("seed", seed)
                    .set("kinds", kinds)
                    .set(
                        "first",
                        out.violations[0].to_json(),
                    )
                    .set("all", out.violations.iter().map(props::Violation::to_json).collect::<Vec<_>>()),
            );
            let mut lk = stdout.lock();
            let _ = writeln!(lk, "{}", line.to_string());
            let _ = lk.flush();
        }
        if samples.len() < 2 && out.nontrivial && k % 97 == 0 {
            samples.push(sample_json(prop, index, &plans, &recs));
        }
        PROGRESS.fetch_add(1, Ordering::Relaxed);
    }
    if let Some(f) = hashfile {
        let mut bytes = Vec::with_capacity((digests.len() + inter.len()) * 8 + 16);
        bytes.extend_from_slice(&(digests.len() as u64).to_le_bytes());
        for d in &digests {
            bytes.extend_from_slice(&d.to_le_bytes());
        }
        bytes.extend_from_slice(&(inter.len() as u64).to_le_bytes());
        for d in &inter {
            bytes.extend_from_slice(&d.to_le_bytes());
        }
        std::fs::write(f, bytes).expect("write hashfile");
    }
    let summary = J::obj().set(
        "summary",
        J::obj()
            .set("property", prop)
            .set("first", first)
            .set("count", count)
            .set("cases", done)
            .set("violating_cases", violating)
            .set("wall_s", t0.elapsed().as_secs_f64())
            .set("stats", stats.to_json())
            .set("samples", samples),
    );
    println!("{}", summary.to_string());
}

fn cmd_hashes(args: &[String]) {
    // Determinism proof support: print "index trace_hash..." for each case.
    let prop = args[2].as_str();
    let base: u64 = args[3].parse().expect("base seed");
    let first: u64 = args[4].parse().expect("first");
    let count: u64 = args[5].parse().expect("count");
    let thorough = args.get(6).map(String::as_str) == Some("thorough");
    let reverse = args.get(7).map(String::as_str) == Some("reverse");
    start_watchdog(300);
    // prefix=<index>: first execute another case in this process (its result is discarded), so
    // that the cases that follow run in a process with an unrelated history
    if let Some(pi) = args.get(7).and_then(|a| a.strip_prefix("prefix=")).and_then(|v| v.parse::<u64>().ok()) {
        let seed = case_seed(base, prop, pi);
        let plans = props::generate(prop, &props::GenCtx { seed, index: pi, thorough });
        let _ = run_case(&plans);
    }
    let idx: Vec<u64> = if reverse {
        (first..first + count).rev().collect()
    } else {
        (first..first + count).collect()
    };
    let mut lines = vec![];
    for index in idx {
        CUR_INDEX.store(index, Ordering::Relaxed);
        let seed = case_seed(base, prop, index);
        let plans = props::generate(prop, &props::GenCtx { seed, index, thorough });
        if plans.is_empty() {
            lines.push((index, format!("{index} - - ")));
            PROGRESS.fetch_add(1, Ordering::Relaxed);
            continue;
        }
        let recs = run_case(&plans);
        let out = props::check(prop, &plans, &recs);
        let hs: Vec<String> = recs.iter().map(|r| format!("{:016x}", r.trace_hash)).collect();
        let ev: u64 = recs
            .iter()
            .map(|r| {
                let mut h = 0u64;
                for e in &r.events {
                    h = rng::mix(&[h, e.step, u64::from(e.tid), e.clock, e.ticks, rng::hash_str(&format!("{:?}", e.k))]);
                }
                h
            })
            .fold(0, |a, b| rng::mix(&[a, b]));
        let vk: Vec<String> = out.violations.iter().map(|v| format!("{}:{}", v.kind, rng::hash_str(&v.detail))).collect();
        lines.push((index, format!("{index} {} {ev:016x} {}", hs.join(","), vk.join("|"))));
        PROGRESS.fetch_add(1, Ordering::Relaxed);
    }
    lines.sort();
    for (_, l) in lines {
        println!("{l}");
    }
}

fn cmd_replay(args: &[String]) {
    let text = std::fs::read_to_string(&args[2]).expect("read replay file");
    let j = J::parse(&text).expect("parse replay file");
    let prop = j.s("property");
    let mut plans = vec![];
    for p in j.a("plans") {
        plans.push(Plan::from_json(&p).expect("plan"));
    }
    start_watchdog(300);
    let recs = run_case(&plans);
    let out = props::check(&prop, &plans, &recs);
    let verbose = args.get(3).map(String::as_str) == Some("-v");
    if verbose {
        for r in &recs {
            for e in &r.events {
                eprintln!("{:>8} T{} clk={} tk={} {:?}", e.step, e.tid, e.clock, e.ticks, e.k);
            }
        }
    }
    let res = J::obj()
        .set("property", prop.as_str())
        .set(
            "violations",
            out.violations.iter().map(props::Violation::to_json).collect::<Vec<_>>(),
        )
        .set(
            "trace_hashes",
            recs.iter().map(|r| format!("{:016x}", r.trace_hash)).collect::<Vec<_>>(),
        )
        .set("reproduced_recorded", {
            let want: Vec<String> = j
                .a("violations")
                .iter()
                .map(|v| v.s("kind"))
                .collect();
            let got: Vec<String> = out.violations.iter().map(|v| v.kind.clone()).collect();
            let hashes_want: Vec<String> = j.a("trace_hashes").iter().filter_map(|x| x.as_str().map(str::to_string)).collect();
            let hashes_got: Vec<String> = recs.iter().map(|r| format!("{:016x}", r.trace_hash)).collect();
            if j.b("engine_nondeterministic") {
                want.iter().all(|k| got.contains(k))
            } else {
                want == got && (hashes_want.is_empty() || hashes_want == hashes_got)
            }
        });
    println!("{}", res.to_string());
    if !out.violations.is_empty() {
        std::process::exit(1);
    }
}

fn cmd_shrink(args: &[String]) {
    let prop = args[2].as_str();
    let base: u64 = args[3].parse().expect("base seed");
    let index: u64 = args[4].parse().expect("index");
    let thorough = args.get(5).map(String::as_str) == Some("thorough");
    let outfile = args[6].as_str();
    start_watchdog(300);
    let seed = case_seed(base, prop, index);
    let plans = props::generate(prop, &props::GenCtx { seed, index, thorough });
    let recs = run_case(&plans);
    let out = props::check(prop, &plans, &recs);
    if out.violations.is_empty() {
        println!("{}", J::obj().set("shrink", "no_violation").to_string());
        std::process::exit(2);
    }
    let expl: Vec<Plan> = plans.iter().zip(&recs).map(|(p, r)| explicit(p, r)).collect();
    // the explicit plan must reproduce it
    let recs2 = run_case(&expl);
    let out2 = props::check(prop, &expl, &recs2);
    let same = recs.iter().zip(&recs2).all(|(a, b)| a.trace_hash == b.trace_hash)
        && out.violations == out2.violations;
    // For C16 a second execution in the same process is not expected to be identical when
    // the property is violated (that is the violation); candidates are judged in fresh processes.
    // If the explicit plan does not reproduce the run although nothing else changed, the ENGINE
    // under test is nondeterministic (the harness is proved deterministic separately). That is
    // tolerated as long as the violation kind persists; the replay file says so and is then
    // judged by kind, not by trace hash.
    let mut nondet = false;
    if !same && prop != "C16" {
        let wanted = args.get(7).cloned().unwrap_or_else(|| out.violations[0].kind.clone());
        if out2.violations.iter().any(|v| v.kind == wanted) {
            nondet = true;
        } else {
            println!("{}", J::obj().set("shrink", "explicit_plan_diverged").to_string());
            std::process::exit(2);
        }
    }
    let target = match args.get(7) {
        Some(k) if out.violations.iter().any(|v| &v.kind == k) => k.clone(),
        Some(k) => {
            println!("{}", J::obj().set("shrink", "kind_not_found").set("kind", k.as_str()).to_string());
            std::process::exit(2);
        }
        None => out.violations[0].kind.clone(),
    };
    let (min_plans, tried) = shrink::minimise(prop, expl, &target);
    let recs3 = run_case(&min_plans);
    let mut out3 = props::check(prop, &min_plans, &recs3);
    if prop == "C16" {
        // recorded expectation: the kind only (this process has a history by now)
        out3.violations.retain(|v| v.kind == target);
        if out3.violations.is_empty() {
            out3.violations.push(out.violations.iter().find(|v| v.kind == target).unwrap().clone());
        }
    }
    let mut j = replay_file_json(prop, &min_plans, &out3, &recs3);
    if prop == "C16" || nondet {
        j.put("trace_hashes", Vec::<String>::new());
    }
    if nondet {
        j.put("engine_nondeterministic", true);
        j.put(
            "violations",
            out3.violations
                .iter()
                .filter(|v| v.kind == target)
                .take(1)
                .map(props::Violation::to_json)
                .collect::<Vec<_>>(),
        );
    }
    let j = j
        .set("seed", seed)
        .set("index", index)
        .set("base_seed", base)
        .set("minimised_for", target.as_str())
        .set("shrink_candidates_tried", tried);
    std::fs::write(outfile, j.to_string()).expect("write replay file");
    println!(
        "{}",
        J::obj()
            .set("shrink", "ok")
            .set("file", outfile)
            .set("kind", target.as_str())
            .set(
                "detail",
                out3.violations
                    .iter()
                    .find(|v| v.kind == target)
                    .map_or(String::new(), |v| v.detail.clone()),
            )
            .set("script_len", min_plans.iter().map(|p| p.script.len()).sum::<usize>())
            .set("preemptions", min_plans.iter().map(|p| p.preempts.len()).sum::<usize>())
            .set("tried", tried)
            .to_string()
    );
}

/// Dump the raw byte stream of a case's first plan (for the real-process stages).
fn cmd_script(args: &[String]) {
    let prop = args[2].as_str();
    let base: u64 = args[3].parse().expect("base seed");
    let index: u64 = args[4].parse().expect("index");
    let thorough = args.get(5).map(String::as_str) == Some("thorough");
    let seed = case_seed(base, prop, index);
    let plans = props::generate(prop, &props::GenCtx { seed, index, thorough });
    let mut items = vec![];
    if let Some(p) = plans.iter().find(|p| !p.params.b("noise")) {
        for a in &p.script {
            items.push(a.to_json());
        }
    }
    println!("{}", J::Arr(items).to_string());
}

fn cmd_show(args: &[String]) {
    let prop = args[2].as_str();
    let base: u64 = args[3].parse().expect("base seed");
    let index: u64 = args[4].parse().expect("index");
    let thorough = args.get(5).map(String::as_str) == Some("thorough");
    let seed = case_seed(base, prop, index);
    let plans = props::generate(prop, &props::GenCtx { seed, index, thorough });
    let recs = run_case(&plans);
    let out = props::check(prop, &plans, &recs);
    for (p, r) in plans.iter().zip(&recs) {
        println!("PLAN {}", explicit(p, r).to_json().to_string());
        for e in &r.events {
            println!("{:>8} T{} clk={} tk={} tt={} ty={} {:?}", e.step, e.tid, e.clock, e.ticks, e.tticks, e.tyields, e.k);
        }
        println!("end={:?} steps={} ticks={} hash={:016x}", r.end, r.steps, r.ticks, r.trace_hash);
    }
    for v in &out.violations {
        println!("VIOLATION {} :: {}", v.kind, v.detail);
    }
    println!("STATS {}", out.stats.to_json().to_string());
}

/// C16, "repeated runs in one process": the searches are called directly, one after another
/// ON ONE THREAD (no simulator, no UCI loop - a UCI session gives every `go` a thread of its
/// own, so state a thread keeps for itself is invisible there), the way bench and any test
/// harness call them. Each case: search (position, depth) from an empty cache; run some other
/// searches; empty the cache the way bench does; search (position, depth) again. The driver
/// compares everything the two searches printed, and their node counts.
fn cmd_direct(args: &[String]) {
    use crate::board::transposition_table::TRANSPOSITION_TABLE;
    use crate::board::Board;
    use crate::evaluate::simple_evaluator::SimpleEvaluator;
    use crate::search::{Depth, Search};
    let base: u64 = args[2].parse().expect("base seed");
    let first: u64 = args[3].parse().expect("first");
    let count: u64 = args[4].parse().expect("count");
    let clear = || {
        TRANSPOSITION_TABLE.write().expect("table").clear();
    };
    let run = |fen: &str, d: u8| -> u64 {
        let mut s = Search::new(&Board::from_fen(fen), None);
        s.search(&SimpleEvaluator, Some(d as Depth));
        let _ = std::io::stdout().flush();
        s.get_nodes() as u64
    };
    let pick_pos = |rng: &mut rng::Rng| -> refmodel::Pos {
        loop {
            let p = match rng.below(4) {
                0 => refmodel::Pos::from_fen(rng.pick(gen::BENCH_FENS)).unwrap(),
                1 => refmodel::Pos::from_fen(rng.pick(gen::CURATED)).unwrap(),
                2 => gen::sparse_position(rng),
                _ => {
                    let n = rng.below(60) as usize;
                    let (_, ps) = refmodel::playout(&refmodel::Pos::start(), n, rng, true);
                    ps.last().unwrap().clone()
                }
            };
            if !p.legal_moves().is_empty() {
                return p;
            }
        }
    };
    for k in first..first + count {
        let mut rng = rng::Rng::new(case_seed(base, "C16-direct", k));
        let pos = pick_pos(&mut rng);
        let fen = pos.to_fen();
        let maxd = if pos.piece_count() > 20 { 4 } else { 5 };
        let d = rng.range(1, maxd + 1) as u8;
        // what runs in between
        let mut between: Vec<(String, u8)> = vec![];
        for _ in 0..rng.range(1, 4) {
            match rng.below(5) {
                0 => between.push((fen.clone(), 1)),
                1 => between.push((fen.clone(), d.saturating_sub(1).max(1))),
                2 => between.push((fen.clone(), d)),
                3 => {
                    // a position one or two moves on (the next moves of the same game)
                    let (_, ps) = refmodel::playout(&pos, rng.range(1, 3) as usize, &mut rng, false);
                    let q = ps.last().unwrap();
                    if !q.legal_moves().is_empty() {
                        between.push((q.to_fen(), rng.range(1, 4) as u8));
                    }
                }
                _ => between.push((pick_pos(&mut rng).to_fen(), rng.range(1, 4) as u8)),
            }
        }
        let clear_between = rng.chance(1, 2);
        println!("@@CASE {k} depth={d} fen={fen}");
        clear();
        println!("@@A");
        let na = run(&fen, d);
        println!("@@NODES {na}");
        println!("@@BETWEEN");
        for (f, bd) in &between {
            if clear_between {
                clear();
            }
            println!("@@SEARCH depth={bd} fen={f}");
            run(f, *bd);
        }
        clear();
        println!("@@B");
        let nb = run(&fen, d);
        println!("@@NODES {nb}");
        println!("@@END");
    }
}

pub fn main() {
    let args: Vec<String> = std::env::args().collect();
    let cmd = args.get(1).map(String::as_str).unwrap_or("");
    match cmd {
        "selftest" => {
            let r = refmodel::selftest().and_then(|n| gen::corpus_selftest().map(|c| (n, c)));
            match r {
                Ok((n, c)) => println!(
                    "{}",
                    J::obj()
                        .set("selftest", "ok")
                        .set("perft_nodes", n)
                        .set("corpus_positions", c)
                        .to_string()
                ),
                Err(e) => {
                    eprintln!("reference model self-test FAILED: {e}");
                    std::process::exit(2);
                }
            }
        }
        "run" => cmd_run(&args),
        "hashes" => cmd_hashes(&args),
        "replay" => cmd_replay(&args),
        "shrink" => cmd_shrink(&args),
        "show" => cmd_show(&args),
        "script" => cmd_script(&args),
        "direct" => cmd_direct(&args),
        _ => {
            eprintln!("usage: rce_sim selftest|run|hashes|replay|shrink|show ...");
            std::process::exit(2);
        }
    }
}
