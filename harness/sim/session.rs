//! Turn a run's event log into a session history the oracles can reason about, and a
//! reference model of what a UCI session's position should be.

use super::kernel::{Ev, EvK, RunRec};
use super::refmodel::{Mv, Pos};

#[derive(Clone, Debug)]
pub struct LineRec {
    pub action: usize,
    pub text: String,
    pub ev: usize,
    pub step: u64,
    pub clock: u64,
    pub ticks: u64,
    pub stalled: u64,
    /// Input-thread yield count when the line was delivered.
    pub t0_yields: u64,
    /// Input-thread yield count when the engine came back for the next read (None = never).
    pub t0_yields_back: Option<u64>,
    /// stdout lines printed by the input thread while handling this line.
    pub outs: Vec<(String, u64)>,
    pub errs: Vec<String>,
    /// Index into RunRec.boards of the position reported after this line was handled.
    pub board_after: Option<usize>,
    pub board_before: Option<usize>,
    pub spawned: Option<u8>,
}

#[derive(Clone, Debug)]
pub struct OutRec {
    pub ev: usize,
    pub step: u64,
    pub clock: u64,
    pub ticks: u64,
    pub tticks: u64,
    pub stalled: u64,
    pub text: String,
}

#[derive(Clone, Debug)]
pub struct GoRec {
    pub line: usize,
    pub tid: Option<u8>,
    pub refused: bool,
    pub infos: Vec<OutRec>,
    pub bestmoves: Vec<OutRec>,
    pub thread_ended: bool,
    pub thread_begun: bool,
    pub panic: Option<String>,
    /// stall ns injected between delivery and the first bestmove (or run end)
    pub stall_ns: u64,
    /// Event index of the first `stop` store(false) by the input thread while this search existed.
    pub stop_ev: Option<usize>,
    /// The search thread's own tick count at that moment.
    pub stop_tticks: u64,
    pub end_tticks: u64,
    pub first_abort_ev: Option<usize>,
    /// answered by the input thread itself, without a search thread
    pub inline: bool,
    /// the parser rejected the line
    pub parse_error: bool,
}

#[derive(Clone, Debug, Default)]
pub struct Hist {
    pub lines: Vec<LineRec>,
    pub gos: Vec<GoRec>,
    pub panics: Vec<(u8, String)>,
    pub input_returned: bool,
    pub input_returned_yields: Option<u64>,
    pub missing_bestmove: u64,
    pub eof_seen: bool,
    pub eof_yields: Option<u64>,
    pub orphan_bestmoves: Vec<OutRec>,
}

fn outrec(i: usize, e: &Ev, text: &str) -> OutRec {
    OutRec {
        ev: i,
        step: e.step,
        clock: e.clock,
        ticks: e.ticks,
        tticks: e.tticks,
        stalled: e.stalled,
        text: text.to_string(),
    }
}

pub fn history(rec: &RunRec) -> Hist {
    let mut h = Hist::default();
    let mut sessions_seen = 0usize;
    let mut tid_go: Vec<Option<usize>> = vec![None; super::kernel::NT];
    let mut last_tticks = [0u64; super::kernel::NT];
    let mut open_gos: Vec<usize> = vec![];
    for (i, e) in rec.events.iter().enumerate() {
        let tid = e.tid as usize;
        last_tticks[tid] = e.tticks;
        match &e.k {
            EvK::Session(idx) => {
                sessions_seen = idx + 1;
                let mut stop_handled = false;
                if let Some(l) = h.lines.last_mut() {
                    if l.board_after.is_none() {
                        l.board_after = Some(*idx);
                        l.t0_yields_back = Some(e.tyields);
                        stop_handled = l.text.split_whitespace().next() == Some("stop");
                    }
                }
                // A `stop` line the engine has finished with counts as a stop for the search that
                // is alive at that moment, whether or not the engine stored anything (a stop that
                // does nothing must not be invisible).
                if stop_handled {
                    if let Some(gi) = h.gos.iter().rposition(|g| g.tid.is_some()) {
                        let g = &mut h.gos[gi];
                        if g.stop_ev.is_none() && !g.thread_ended {
                            g.stop_ev = Some(i);
                            g.stop_tticks = last_tticks[g.tid.unwrap() as usize];
                        }
                    }
                }
            }
            EvK::Deliver { action, line } => {
                h.lines.push(LineRec {
                    action: *action,
                    text: line.clone(),
                    ev: i,
                    step: e.step,
                    clock: e.clock,
                    ticks: e.ticks,
                    stalled: e.stalled,
                    t0_yields: e.tyields,
                    t0_yields_back: None,
                    outs: vec![],
                    errs: vec![],
                    board_after: None,
                    board_before: sessions_seen.checked_sub(1),
                    spawned: None,
                });
                if line.split_whitespace().next() == Some("go") {
                    h.gos.push(GoRec {
                        line: h.lines.len() - 1,
                        tid: None,
                        refused: false,
                        infos: vec![],
                        bestmoves: vec![],
                        thread_ended: false,
                        thread_begun: false,
                        panic: None,
                        stall_ns: 0,
                        stop_ev: None,
                        stop_tticks: 0,
                        end_tticks: 0,
                        first_abort_ev: None,
                        inline: false,
                        parse_error: false,
                    });
                    open_gos.push(h.gos.len() - 1);
                }
            }
            EvK::Spawn(child) => {
                if let Some(l) = h.lines.last_mut() {
                    l.spawned = Some(*child);
                }
                if let Some(g) = h.gos.last_mut() {
                    if g.tid.is_none() && g.line + 1 == h.lines.len() {
                        g.tid = Some(*child);
                        tid_go[*child as usize] = Some(h.gos.len() - 1);
                    }
                }
            }
            EvK::Out(text) => {
                if tid == 0 {
                    let nlines = h.lines.len();
                    if let Some(l) = h.lines.last_mut() {
                        l.outs.push((text.clone(), e.tyields));
                    }
                    // a go answered by the input thread itself (no search thread)
                    if let Some(g) = h.gos.last_mut() {
                        if g.line + 1 == nlines && g.tid.is_none() {
                            if text.starts_with("bestmove") {
                                g.bestmoves.push(outrec(i, e, text));
                                g.inline = true;
                                let gi = h.gos.len() - 1;
                                open_gos.retain(|&x| x != gi);
                            } else if text.starts_with("info") {
                                g.infos.push(outrec(i, e, text));
                            }
                        }
                    }
                } else if let Some(g) = tid_go[tid] {
                    if text.starts_with("bestmove") {
                        h.gos[g].bestmoves.push(outrec(i, e, text));
                        open_gos.retain(|&x| x != g);
                    } else {
                        h.gos[g].infos.push(outrec(i, e, text));
                    }
                } else if text.starts_with("bestmove") {
                    h.orphan_bestmoves.push(outrec(i, e, text));
                }
            }
            EvK::Err(text) => {
                if tid == 0 {
                    let nlines_for_err = h.lines.len();
                    if let Some(l) = h.lines.last_mut() {
                        l.errs.push(text.clone());
                        if text.contains("Failed to parse") {
                            if let Some(g) = h.gos.last_mut() {
                                if g.line + 1 == nlines_for_err {
                                    g.parse_error = true;
                                }
                            }
                        }
                        if text.contains("already running") {
                            if let Some(g) = h.gos.last_mut() {
                                if g.line + 1 == h.lines.len() {
                                    g.refused = true;
                                    let gi = h.gos.len() - 1;
                                    open_gos.retain(|&x| x != gi);
                                }
                            }
                        }
                    }
                }
            }
            EvK::Begin => {
                if let Some(g) = tid_go[tid] {
                    h.gos[g].thread_begun = true;
                }
            }
            EvK::End => {
                if let Some(g) = tid_go[tid] {
                    h.gos[g].thread_ended = true;
                    h.gos[g].end_tticks = e.tticks;
                }
            }
            EvK::Panic(msg) => {
                h.panics.push((e.tid, msg.clone()));
                if let Some(g) = tid_go[tid] {
                    h.gos[g].panic = Some(msg.clone());
                }
            }
            EvK::Stall(ns) => {
                for &g in &open_gos {
                    h.gos[g].stall_ns += ns;
                }
            }
            EvK::FlagStore(false) if tid == 0 => {
                // a `stop`: it targets the most recent go that has a thread
                if let Some(gi) = h.gos.iter().rposition(|g| g.tid.is_some()) {
                    let g = &mut h.gos[gi];
                    if g.stop_ev.is_none() && !g.thread_ended {
                        g.stop_ev = Some(i);
                        g.stop_tticks = last_tticks[g.tid.unwrap() as usize];
                    }
                }
            }
            EvK::Abort(..) => {
                if let Some(g) = tid_go[tid] {
                    if h.gos[g].first_abort_ev.is_none() {
                        h.gos[g].first_abort_ev = Some(i);
                    }
                }
            }
            EvK::MissingBestmove => h.missing_bestmove += 1,
            EvK::InputReturned => {
                h.input_returned = true;
                h.input_returned_yields = Some(e.tyields);
            }
            EvK::StdinEof => {
                h.eof_seen = true;
                h.eof_yields = Some(e.tyields);
            }
            _ => {}
        }
    }
    // threads still alive at the end: remember how far they got
    for g in &mut h.gos {
        if let Some(t) = g.tid {
            if !g.thread_ended {
                g.end_tticks = rec.threads.get(t as usize).map_or(0, |r| r.ticks);
            }
        }
    }
    h
}

// ------------------------------------------------------- reference UCI session

#[derive(Clone, Debug, PartialEq)]
pub enum PosCmd {
    /// Well-formed and every move legal: the new game (start, moves, final).
    Accept { start: Pos, moves: Vec<Mv>, positions: Vec<Pos> },
    /// Well-formed but move `index` is not legal: must be refused as a whole.
    RejectMove { index: usize, text: String },
    /// Not a well-formed position command (the reference does not say what happens).
    Malformed,
}

/// What the rules say a `position ...` line means.
pub fn interpret_position(tokens: &[&str]) -> PosCmd {
    if tokens.len() < 2 || tokens[0] != "position" {
        return PosCmd::Malformed;
    }
    let (start, rest) = match tokens[1] {
        "startpos" => (Pos::start(), &tokens[2..]),
        "fen" => {
            // the FEN is what stands between `fen` and `moves` (or the end): four to six fields
            let end = tokens[2..]
                .iter()
                .position(|t| *t == "moves")
                .map_or(tokens.len(), |i| i + 2);
            if !(6..=8).contains(&end) {
                return PosCmd::Malformed;
            }
            match Pos::from_fen(&tokens[2..end].join(" ")) {
                Ok(p) if p.is_sane() => (p, &tokens[end..]),
                _ => return PosCmd::Malformed,
            }
        }
        _ => return PosCmd::Malformed,
    };
    let mut positions = vec![start.clone()];
    let mut moves = vec![];
    if rest.is_empty() {
        return PosCmd::Accept { start, moves, positions };
    }
    if rest[0] != "moves" {
        return PosCmd::Malformed;
    }
    let mut cur = start.clone();
    for (i, t) in rest[1..].iter().enumerate() {
        match cur.find_uci(t) {
            Some(m) => {
                cur = cur.make(m);
                moves.push(m);
                positions.push(cur.clone());
            }
            None => {
                return PosCmd::RejectMove {
                    index: i,
                    text: (*t).to_string(),
                }
            }
        }
    }
    PosCmd::Accept { start, moves, positions }
}

/// The reference session: which position is in force after each line.
#[derive(Clone, Debug)]
pub struct RefSession {
    /// Positions of the current game; last is the current one.
    pub game: Vec<Pos>,
    pub known: bool,
}

impl Default for RefSession {
    fn default() -> Self {
        Self::new()
    }
}

impl RefSession {
    pub fn new() -> Self {
        Self {
            game: vec![Pos::start()],
            known: true,
        }
    }

    pub fn current(&self) -> &Pos {
        self.game.last().unwrap()
    }

    /// Apply a delivered line. Returns the interpretation if it was a position command.
    pub fn apply(&mut self, line: &str) -> Option<PosCmd> {
        let toks: Vec<&str> = line.split_whitespace().collect();
        match toks.first().copied() {
            Some("ucinewgame") if toks.len() == 1 => {
                self.game = vec![Pos::start()];
                self.known = true;
                None
            }
            Some("ucinewgame") => {
                // trailing junk: the reference does not say whether it is honoured
                self.known = false;
                None
            }
            Some("position") => {
                let c = interpret_position(&toks);
                match &c {
                    PosCmd::Accept { positions, .. } => {
                        self.game = positions.clone();
                        self.known = true;
                    }
                    PosCmd::RejectMove { .. } => {}
                    PosCmd::Malformed => self.known = false,
                }
                Some(c)
            }
            _ => None,
        }
    }
}
