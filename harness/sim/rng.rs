//! Small deterministic PRNG (splitmix64 seeding + xoshiro256**). No external crates.

#[derive(Clone, Debug)]
pub struct Rng {
    s: [u64; 4],
}

pub fn splitmix64(x: &mut u64) -> u64 {
    *x = x.wrapping_add(0x9E37_79B9_7F4A_7C15);
    let mut z = *x;
    z = (z ^ (z >> 30)).wrapping_mul(0xBF58_476D_1CE4_E5B9);
    z = (z ^ (z >> 27)).wrapping_mul(0x94D0_49BB_1331_11EB);
    z ^ (z >> 31)
}

/// Mix several integers into one seed (order-sensitive).
pub fn mix(parts: &[u64]) -> u64 {
    let mut h: u64 = 0x243F_6A88_85A3_08D3;
    for &p in parts {
        let mut x = h ^ p.wrapping_mul(0x9E37_79B9_7F4A_7C15);
        h = splitmix64(&mut x);
    }
    h
}

pub fn hash_str(s: &str) -> u64 {
    let mut h: u64 = 0xcbf2_9ce4_8422_2325;
    for b in s.bytes() {
        h ^= u64::from(b);
        h = h.wrapping_mul(0x0000_0100_0000_01B3);
    }
    h
}

impl Rng {
    pub fn new(seed: u64) -> Self {
        let mut x = seed;
        let s = [
            splitmix64(&mut x),
            splitmix64(&mut x),
            splitmix64(&mut x),
            splitmix64(&mut x),
        ];
        Self { s }
    }

    pub fn next_u64(&mut self) -> u64 {
        let result = self.s[1].wrapping_mul(5).rotate_left(7).wrapping_mul(9);
        let t = self.s[1] << 17;
        self.s[2] ^= self.s[0];
        self.s[3] ^= self.s[1];
        self.s[1] ^= self.s[2];
        self.s[0] ^= self.s[3];
        self.s[2] ^= t;
        self.s[3] = self.s[3].rotate_left(45);
        result
    }

    /// Uniform in 0..n (n > 0).
    pub fn below(&mut self, n: u64) -> u64 {
        debug_assert!(n > 0);
        // Multiply-shift; bias is negligible for our n.
        ((u128::from(self.next_u64()) * u128::from(n)) >> 64) as u64
    }

    pub fn usize_below(&mut self, n: usize) -> usize {
        self.below(n as u64) as usize
    }

    /// Uniform in lo..=hi.
    pub fn range(&mut self, lo: u64, hi: u64) -> u64 {
        lo + self.below(hi - lo + 1)
    }

    pub fn chance(&mut self, num: u64, den: u64) -> bool {
        self.below(den) < num
    }

    pub fn f64(&mut self) -> f64 {
        (self.next_u64() >> 11) as f64 / (1u64 << 53) as f64
    }

    pub fn pick<'a, T>(&mut self, xs: &'a [T]) -> &'a T {
        &xs[self.usize_below(xs.len())]
    }

    /// Geometric number of failures before a success of probability p (p in (0,1]).
    pub fn geometric(&mut self, p: f64) -> u64 {
        if p >= 1.0 {
            return 0;
        }
        let u = 1.0 - self.f64(); // (0,1]
        let g = (u.ln() / (1.0 - p).ln()).floor();
        if g.is_finite() && g >= 0.0 {
            if g > 1e18 {
                u64::MAX / 2
            } else {
                g as u64
            }
        } else {
            0
        }
    }

    pub fn shuffle<T>(&mut self, xs: &mut [T]) {
        for i in (1..xs.len()).rev() {
            let j = self.usize_below(i + 1);
            xs.swap(i, j);
        }
    }

    pub fn fork(&mut self, tag: u64) -> Self {
        Self::new(mix(&[self.next_u64(), tag]))
    }
}
