//! Minimisation of a violating case: shrink the script, the fault plan and the schedule
//! while the same violation kind persists. Every candidate is executed for real.

use super::kernel::{Action, Plan, Term};
use super::props;
use super::run_case;

struct Ctx<'a> {
    prop: &'a str,
    target: &'a str,
    tried: u64,
    t0: std::time::Instant,
    max_tries: u64,
    max_secs: f64,
    fresh_process: bool,
}

impl Ctx<'_> {
    fn exhausted(&self) -> bool {
        self.tried >= self.max_tries || self.t0.elapsed().as_secs_f64() > self.max_secs
    }

    fn fails(&mut self, plans: &[Plan]) -> bool {
        if self.exhausted() {
            return false;
        }
        if !props::input_ok(self.prop, plans) {
            return false; // outside the property's input assumptions (e.g. an invalid FEN)
        }
        self.tried += 1;
        if self.fresh_process {
            // The verdict depends on what the process did before (C16): judge every
            // candidate in a process of its own.
            let j = super::json::J::obj()
                .set("property", self.prop)
                .set("plans", plans.iter().map(Plan::to_json).collect::<Vec<_>>());
            let f = std::env::temp_dir().join(format!("rce_sim_cand_{}.json", std::process::id()));
            if std::fs::write(&f, j.to_string()).is_err() {
                return false;
            }
            let exe = std::env::current_exe().expect("current_exe");
            let out = std::process::Command::new(exe).arg("replay").arg(&f).output();
            let _ = std::fs::remove_file(&f);
            return match out {
                Ok(o) => {
                    let t = String::from_utf8_lossy(&o.stdout);
                    o.status.code() == Some(1) && t.contains(&format!("\"kind\":\"{}\"", self.target))
                }
                Err(_) => false,
            };
        }
        let recs = run_case(plans);
        let out = props::check(self.prop, plans, &recs);
        out.violations.iter().any(|v| v.kind == self.target)
    }
}

fn ddmin_script(ctx: &mut Ctx, plans: &mut Vec<Plan>, pi: usize) -> bool {
    let mut changed = false;
    let mut n = 2usize;
    loop {
        let len = plans[pi].script.len();
        if len <= 1 || ctx.exhausted() {
            break;
        }
        let chunk = (len + n - 1) / n;
        let mut reduced = false;
        let mut start = 0;
        while start < len {
            let end = (start + chunk).min(len);
            let mut cand = plans.clone();
            cand[pi].script.drain(start..end);
            if !cand[pi].script.is_empty() && ctx.fails(&cand) {
                *plans = cand;
                reduced = true;
                changed = true;
                break;
            }
            start = end;
        }
        if reduced {
            n = (n - 1).max(2);
        } else {
            if chunk == 1 {
                break;
            }
            n = (n * 2).min(len);
        }
    }
    changed
}

fn shrink_line(line: &str) -> Vec<String> {
    let mut out = vec![];
    let toks: Vec<&str> = line.split_whitespace().collect();
    if toks.is_empty() {
        return out;
    }
    // drop trailing moves of a position command
    if toks[0] == "position" {
        if let Some(mi) = toks.iter().position(|t| *t == "moves") {
            let nm = toks.len() - mi - 1;
            if nm > 0 {
                for keep in [0, nm / 2, nm - 1] {
                    if keep < nm {
                        let mut t = toks[..=mi].to_vec();
                        t.extend_from_slice(&toks[mi + 1..mi + 1 + keep]);
                        if keep == 0 {
                            t.pop();
                        }
                        out.push(t.join(" "));
                    }
                }
            }
        }
        if toks.len() > 2 || toks.get(1) != Some(&"startpos") {
            out.push("position startpos".to_string());
        }
    }
    // shrink numbers
    for (i, t) in toks.iter().enumerate() {
        if let Ok(v) = t.parse::<u64>() {
            for nv in [0, 1, v / 2, v.saturating_sub(1)] {
                if nv < v {
                    let mut t2: Vec<String> = toks.iter().map(|s| (*s).to_string()).collect();
                    t2[i] = nv.to_string();
                    out.push(t2.join(" "));
                }
            }
        }
        if t.len() > 12 {
            let mut t2: Vec<String> = toks.iter().map(|s| (*s).to_string()).collect();
            t2[i] = t.chars().take(4).collect();
            out.push(t2.join(" "));
        }
    }
    // drop one token (not the first)
    if toks.len() > 1 && toks.len() <= 12 && toks[0] != "position" {
        for i in 1..toks.len() {
            let mut t2 = toks.clone();
            t2.remove(i);
            out.push(t2.join(" "));
        }
    }
    out.dedup();
    out
}

fn simplify_actions(ctx: &mut Ctx, plans: &mut Vec<Plan>, pi: usize) -> bool {
    let mut changed = false;
    let mut i = 0;
    while i < plans[pi].script.len() && !ctx.exhausted() {
        let a = plans[pi].script[i].clone();
        let mut cands: Vec<Action> = vec![];
        match &a {
            Action::Send { line, cuts, term, eintr } => {
                if !cuts.is_empty() || *eintr || *term == Term::CrLf {
                    cands.push(Action::Send {
                        line: line.clone(),
                        cuts: vec![],
                        term: if *term == Term::None { Term::None } else { Term::Lf },
                        eintr: false,
                    });
                }
                for l in shrink_line(line) {
                    cands.push(Action::Send {
                        line: l,
                        cuts: cuts.clone(),
                        term: *term,
                        eintr: *eintr,
                    });
                }
            }
            Action::DelaySteps(k) => {
                for nk in [0, 1, k / 2, k.saturating_sub(1)] {
                    if nk < *k {
                        cands.push(Action::DelaySteps(nk));
                    }
                }
            }
            Action::DelayNs(k) => {
                for nk in [0, k / 2] {
                    if nk < *k {
                        cands.push(Action::DelayNs(nk));
                    }
                }
            }
            _ => {}
        }
        let mut took = false;
        for c in cands {
            let mut cand = plans.clone();
            cand[pi].script[i] = c;
            if ctx.fails(&cand) {
                *plans = cand;
                changed = true;
                took = true;
                break;
            }
        }
        if !took {
            i += 1;
        }
    }
    changed
}

fn drop_faults(ctx: &mut Ctx, plans: &mut Vec<Plan>, pi: usize) -> bool {
    let mut changed = false;
    // all preemptions at once
    if !plans[pi].preempts.is_empty() {
        let mut cand = plans.clone();
        cand[pi].preempts.clear();
        if ctx.fails(&cand) {
            *plans = cand;
            changed = true;
        }
    }
    let mut i = 0;
    while i < plans[pi].preempts.len() && !ctx.exhausted() {
        let mut cand = plans.clone();
        cand[pi].preempts.remove(i);
        if ctx.fails(&cand) {
            *plans = cand;
            changed = true;
        } else {
            // try a shorter hold
            let h = plans[pi].preempts[i].hold;
            let mut took = false;
            for nh in [0, 1, h / 10] {
                if nh < h {
                    let mut cand = plans.clone();
                    cand[pi].preempts[i].hold = nh;
                    if ctx.fails(&cand) {
                        *plans = cand;
                        changed = true;
                        took = true;
                        break;
                    }
                }
            }
            let _ = took;
            i += 1;
        }
    }
    if !plans[pi].stalls.is_empty() {
        let mut cand = plans.clone();
        cand[pi].stalls.clear();
        if ctx.fails(&cand) {
            *plans = cand;
            changed = true;
        } else {
            let mut i = 0;
            while i < plans[pi].stalls.len() && !ctx.exhausted() {
                let mut cand = plans.clone();
                cand[pi].stalls.remove(i);
                if ctx.fails(&cand) {
                    *plans = cand;
                    changed = true;
                } else {
                    i += 1;
                }
            }
        }
    }
    if plans[pi].cost_ns != 1000 {
        let mut cand = plans.clone();
        cand[pi].cost_ns = 1000;
        if ctx.fails(&cand) {
            *plans = cand;
            changed = true;
        }
    }
    changed
}

pub fn minimise(prop: &str, mut plans: Vec<Plan>, target: &str) -> (Vec<Plan>, u64) {
    let mut ctx = Ctx {
        prop,
        target,
        tried: 0,
        t0: std::time::Instant::now(),
        max_tries: std::env::var("VERIF_SHRINK_TRIES")
            .ok()
            .and_then(|v| v.parse().ok())
            .unwrap_or(if prop == "C16" { 250 } else { 4000 }),
        max_secs: 90.0,
        fresh_process: prop == "C16",
    };
    // Multi-plan cases (C16): first try dropping whole plans, keeping at least two.
    if plans.len() > 2 {
        let mut i = 0;
        while i < plans.len() && plans.len() > 2 && !ctx.exhausted() {
            let mut cand = plans.clone();
            cand.remove(i);
            if ctx.fails(&cand) {
                plans = cand;
            } else {
                i += 1;
            }
        }
    }
    for _round in 0..6 {
        let mut changed = false;
        for pi in 0..plans.len() {
            changed |= drop_faults(&mut ctx, &mut plans, pi);
            changed |= ddmin_script(&mut ctx, &mut plans, pi);
            changed |= simplify_actions(&mut ctx, &mut plans, pi);
        }
        if !changed || ctx.exhausted() {
            break;
        }
    }
    (plans, ctx.tried)
}
