//! Minimal JSON value, writer and parser (no external crates).

use std::collections::BTreeMap;
use std::fmt::Write as _;

#[derive(Clone, Debug, PartialEq)]
pub enum J {
    Null,
    Bool(bool),
    Int(i128),
    Float(f64),
    Str(String),
    Arr(Vec<J>),
    Obj(BTreeMap<String, J>),
}

impl J {
    pub fn obj() -> Self {
        J::Obj(BTreeMap::new())
    }

    pub fn set(mut self, k: &str, v: impl Into<J>) -> Self {
        if let J::Obj(m) = &mut self {
            m.insert(k.to_string(), v.into());
        }
        self
    }

    pub fn put(&mut self, k: &str, v: impl Into<J>) {
        if let J::Obj(m) = self {
            m.insert(k.to_string(), v.into());
        }
    }

    pub fn get(&self, k: &str) -> Option<&J> {
        match self {
            J::Obj(m) => m.get(k),
            _ => None,
        }
    }

    pub fn as_i(&self) -> Option<i128> {
        match self {
            J::Int(i) => Some(*i),
            J::Float(f) => Some(*f as i128),
            _ => None,
        }
    }

    pub fn as_u64(&self) -> Option<u64> {
        self.as_i().and_then(|i| u64::try_from(i).ok())
    }

    pub fn as_str(&self) -> Option<&str> {
        match self {
            J::Str(s) => Some(s),
            _ => None,
        }
    }

    pub fn as_bool(&self) -> Option<bool> {
        match self {
            J::Bool(b) => Some(*b),
            _ => None,
        }
    }

    pub fn as_arr(&self) -> Option<&Vec<J>> {
        match self {
            J::Arr(a) => Some(a),
            _ => None,
        }
    }

    pub fn u(&self, k: &str) -> u64 {
        self.get(k).and_then(J::as_u64).unwrap_or(0)
    }

    pub fn s(&self, k: &str) -> String {
        self.get(k).and_then(J::as_str).unwrap_or("").to_string()
    }

    pub fn b(&self, k: &str) -> bool {
        self.get(k).and_then(J::as_bool).unwrap_or(false)
    }

    pub fn a(&self, k: &str) -> Vec<J> {
        self.get(k).and_then(J::as_arr).cloned().unwrap_or_default()
    }

    pub fn to_string(&self) -> String {
        let mut s = String::new();
        self.write(&mut s);
        s
    }

    pub fn write(&self, out: &mut String) {
        match self {
            J::Null => out.push_str("null"),
            J::Bool(b) => out.push_str(if *b { "true" } else { "false" }),
            J::Int(i) => {
                let _ = write!(out, "{i}");
            }
            J::Float(f) => {
                if f.is_finite() {
                    let _ = write!(out, "{f}");
                } else {
                    out.push_str("null");
                }
            }
            J::Str(s) => write_str(out, s),
            J::Arr(a) => {
                out.push('[');
                for (i, v) in a.iter().enumerate() {
                    if i > 0 {
                        out.push(',');
                    }
                    v.write(out);
                }
                out.push(']');
            }
            J::Obj(m) => {
                out.push('{');
                for (i, (k, v)) in m.iter().enumerate() {
                    if i > 0 {
                        out.push(',');
                    }
                    write_str(out, k);
                    out.push(':');
                    v.write(out);
                }
                out.push('}');
            }
        }
    }

    pub fn parse(s: &str) -> Result<J, String> {
        let b = s.as_bytes();
        let mut p = 0usize;
        let v = parse_value(b, &mut p)?;
        skip_ws(b, &mut p);
        if p != b.len() {
            return Err(format!("trailing data at {p}"));
        }
        Ok(v)
    }
}

fn write_str(out: &mut String, s: &str) {
    out.push('"');
    for c in s.chars() {
        match c {
            '"' => out.push_str("\\\""),
            '\\' => out.push_str("\\\\"),
            '\n' => out.push_str("\\n"),
            '\r' => out.push_str("\\r"),
            '\t' => out.push_str("\\t"),
            c if (c as u32) < 0x20 => {
                let _ = write!(out, "\\u{:04x}", c as u32);
            }
            c => out.push(c),
        }
    }
    out.push('"');
}

fn skip_ws(b: &[u8], p: &mut usize) {
    while *p < b.len() && (b[*p] == b' ' || b[*p] == b'\n' || b[*p] == b'\r' || b[*p] == b'\t') {
        *p += 1;
    }
}

fn parse_value(b: &[u8], p: &mut usize) -> Result<J, String> {
    skip_ws(b, p);
    if *p >= b.len() {
        return Err("unexpected end".into());
    }
    match b[*p] {
        b'{' => {
            *p += 1;
            let mut m = BTreeMap::new();
            skip_ws(b, p);
            if *p < b.len() && b[*p] == b'}' {
                *p += 1;
                return Ok(J::Obj(m));
            }
            loop {
                skip_ws(b, p);
                let k = match parse_value(b, p)? {
                    J::Str(s) => s,
                    _ => return Err("object key not a string".into()),
                };
                skip_ws(b, p);
                if *p >= b.len() || b[*p] != b':' {
                    return Err(format!("expected ':' at {p}"));
                }
                *p += 1;
                let v = parse_value(b, p)?;
                m.insert(k, v);
                skip_ws(b, p);
                if *p < b.len() && b[*p] == b',' {
                    *p += 1;
                    continue;
                }
                if *p < b.len() && b[*p] == b'}' {
                    *p += 1;
                    return Ok(J::Obj(m));
                }
                return Err(format!("expected ',' or '}}' at {p}"));
            }
        }
        b'[' => {
            *p += 1;
            let mut a = Vec::new();
            skip_ws(b, p);
            if *p < b.len() && b[*p] == b']' {
                *p += 1;
                return Ok(J::Arr(a));
            }
            loop {
                a.push(parse_value(b, p)?);
                skip_ws(b, p);
                if *p < b.len() && b[*p] == b',' {
                    *p += 1;
                    continue;
                }
                if *p < b.len() && b[*p] == b']' {
                    *p += 1;
                    return Ok(J::Arr(a));
                }
                return Err(format!("expected ',' or ']' at {p}"));
            }
        }
        b'"' => {
            *p += 1;
            let mut out: Vec<u8> = Vec::new();
            while *p < b.len() {
                let c = b[*p];
                *p += 1;
                match c {
                    b'"' => {
                        return String::from_utf8(out)
                            .map(J::Str)
                            .map_err(|e| e.to_string());
                    }
                    b'\\' => {
                        if *p >= b.len() {
                            return Err("bad escape".into());
                        }
                        let e = b[*p];
                        *p += 1;
                        match e {
                            b'n' => out.push(b'\n'),
                            b'r' => out.push(b'\r'),
                            b't' => out.push(b'\t'),
                            b'b' => out.push(8),
                            b'f' => out.push(12),
                            b'u' => {
                                if *p + 4 > b.len() {
                                    return Err("bad \\u".into());
                                }
                                let h = std::str::from_utf8(&b[*p..*p + 4])
                                    .map_err(|e| e.to_string())?;
                                let cp = u32::from_str_radix(h, 16).map_err(|e| e.to_string())?;
                                *p += 4;
                                let ch = char::from_u32(cp).unwrap_or('\u{fffd}');
                                let mut buf = [0u8; 4];
                                out.extend_from_slice(ch.encode_utf8(&mut buf).as_bytes());
                            }
                            other => out.push(other),
                        }
                    }
                    c => out.push(c),
                }
            }
            Err("unterminated string".into())
        }
        b't' if b[*p..].starts_with(b"true") => {
            *p += 4;
            Ok(J::Bool(true))
        }
        b'f' if b[*p..].starts_with(b"false") => {
            *p += 5;
            Ok(J::Bool(false))
        }
        b'n' if b[*p..].starts_with(b"null") => {
            *p += 4;
            Ok(J::Null)
        }
        _ => {
            let start = *p;
            let mut is_float = false;
            while *p < b.len()
                && (b[*p].is_ascii_digit()
                    || b[*p] == b'-'
                    || b[*p] == b'+'
                    || b[*p] == b'.'
                    || b[*p] == b'e'
                    || b[*p] == b'E')
            {
                if b[*p] == b'.' || b[*p] == b'e' || b[*p] == b'E' {
                    is_float = true;
                }
                *p += 1;
            }
            let t = std::str::from_utf8(&b[start..*p]).map_err(|e| e.to_string())?;
            if t.is_empty() {
                return Err(format!("unexpected byte at {start}"));
            }
            if is_float {
                t.parse::<f64>().map(J::Float).map_err(|e| e.to_string())
            } else {
                t.parse::<i128>().map(J::Int).map_err(|e| e.to_string())
            }
        }
    }
}

impl From<bool> for J {
    fn from(v: bool) -> Self {
        J::Bool(v)
    }
}
impl From<u64> for J {
    fn from(v: u64) -> Self {
        J::Int(i128::from(v))
    }
}
impl From<u32> for J {
    fn from(v: u32) -> Self {
        J::Int(i128::from(v))
    }
}
impl From<u8> for J {
    fn from(v: u8) -> Self {
        J::Int(i128::from(v))
    }
}
impl From<i64> for J {
    fn from(v: i64) -> Self {
        J::Int(i128::from(v))
    }
}
impl From<i32> for J {
    fn from(v: i32) -> Self {
        J::Int(i128::from(v))
    }
}
impl From<usize> for J {
    fn from(v: usize) -> Self {
        J::Int(v as i128)
    }
}
impl From<f64> for J {
    fn from(v: f64) -> Self {
        J::Float(v)
    }
}
impl From<&str> for J {
    fn from(v: &str) -> Self {
        J::Str(v.to_string())
    }
}
impl From<String> for J {
    fn from(v: String) -> Self {
        J::Str(v)
    }
}
impl From<&String> for J {
    fn from(v: &String) -> Self {
        J::Str(v.clone())
    }
}
impl<T: Into<J>> From<Vec<T>> for J {
    fn from(v: Vec<T>) -> Self {
        J::Arr(v.into_iter().map(Into::into).collect())
    }
}
impl<T: Into<J>> From<Option<T>> for J {
    fn from(v: Option<T>) -> Self {
        match v {
            Some(x) => x.into(),
            None => J::Null,
        }
    }
}
