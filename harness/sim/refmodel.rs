//! Independent reference model of chess (mailbox), sharing no code with /repo/src/board.
//! Oracle for everything that needs the rules. Validated by perft in `selftest`.
//!
//! Convention (the one the properties use): the en-passant *file* is set on the ply
//! after any double pawn push, whether or not a capture is possible.

use super::rng::Rng;

pub const EMPTY: u8 = 0;
pub const P: u8 = 1;
pub const N: u8 = 2;
pub const B: u8 = 3;
pub const R: u8 = 4;
pub const Q: u8 = 5;
pub const K: u8 = 6;
pub const BLACK: u8 = 8;

#[inline]
pub fn ptype(p: u8) -> u8 {
    p & 7
}
#[inline]
pub fn is_black(p: u8) -> bool {
    p & BLACK != 0
}
#[inline]
pub fn file_of(s: u8) -> i8 {
    (s & 7) as i8
}
#[inline]
pub fn rank_of(s: u8) -> i8 {
    (s >> 3) as i8
}
#[inline]
pub fn sq(file: i8, rank: i8) -> u8 {
    (rank * 8 + file) as u8
}
#[inline]
fn on_board(file: i8, rank: i8) -> bool {
    (0..8).contains(&file) && (0..8).contains(&rank)
}

pub fn sq_name(s: u8) -> String {
    format!(
        "{}{}",
        (b'a' + (s & 7)) as char,
        (b'1' + (s >> 3)) as char
    )
}

#[derive(Clone, Copy, PartialEq, Eq, Debug, Hash)]
pub struct Mv {
    pub from: u8,
    pub to: u8,
    /// 0 or one of N,B,R,Q
    pub promo: u8,
    pub castle: bool,
    pub ep: bool,
    pub double: bool,
    pub capture: bool,
}

impl Mv {
    pub fn uci(&self) -> String {
        let mut s = format!("{}{}", sq_name(self.from), sq_name(self.to));
        match self.promo {
            N => s.push('n'),
            B => s.push('b'),
            R => s.push('r'),
            Q => s.push('q'),
            _ => {}
        }
        s
    }
}

#[derive(Clone, PartialEq, Eq, Debug, Hash)]
pub struct Pos {
    pub sq: [u8; 64],
    pub white: bool,
    /// K Q k q
    pub castle: [bool; 4],
    pub ep: Option<u8>,
    pub hmc: u32,
    pub fmn: u32,
}

const KNIGHT_D: [(i8, i8); 8] = [
    (1, 2),
    (2, 1),
    (2, -1),
    (1, -2),
    (-1, -2),
    (-2, -1),
    (-2, 1),
    (-1, 2),
];
const KING_D: [(i8, i8); 8] = [
    (1, 0),
    (1, 1),
    (0, 1),
    (-1, 1),
    (-1, 0),
    (-1, -1),
    (0, -1),
    (1, -1),
];
const ROOK_D: [(i8, i8); 4] = [(1, 0), (0, 1), (-1, 0), (0, -1)];
const BISHOP_D: [(i8, i8); 4] = [(1, 1), (-1, 1), (-1, -1), (1, -1)];

pub const START_FEN: &str = "rnbqkbnr/pppppppp/8/8/8/8/PPPPPPPP/RNBQKBNR w KQkq - 0 1";

impl Pos {
    pub fn start() -> Self {
        Self::from_fen(START_FEN).unwrap()
    }

    pub fn from_fen(fen: &str) -> Result<Self, String> {
        let f: Vec<&str> = fen.split_whitespace().collect();
        if f.len() < 4 {
            return Err("too few fields".into());
        }
        let mut sqs = [EMPTY; 64];
        let ranks: Vec<&str> = f[0].split('/').collect();
        if ranks.len() != 8 {
            return Err("need 8 ranks".into());
        }
        for (i, r) in ranks.iter().enumerate() {
            let rank = 7 - i as i8;
            let mut file = 0i8;
            for c in r.chars() {
                if let Some(d) = c.to_digit(10) {
                    file += d as i8;
                } else {
                    let t = match c.to_ascii_lowercase() {
                        'p' => P,
                        'n' => N,
                        'b' => B,
                        'r' => R,
                        'q' => Q,
                        'k' => K,
                        _ => return Err(format!("bad piece {c}")),
                    };
                    if file > 7 {
                        return Err("rank overflow".into());
                    }
                    sqs[sq(file, rank) as usize] = t | if c.is_ascii_lowercase() { BLACK } else { 0 };
                    file += 1;
                }
            }
            if file != 8 {
                return Err("rank length".into());
            }
        }
        let white = match f[1] {
            "w" => true,
            "b" => false,
            _ => return Err("bad side".into()),
        };
        let mut castle = [false; 4];
        for c in f[2].chars() {
            match c {
                'K' => castle[0] = true,
                'Q' => castle[1] = true,
                'k' => castle[2] = true,
                'q' => castle[3] = true,
                '-' => {}
                _ => return Err("bad castling".into()),
            }
        }
        let ep = if f[3] == "-" {
            None
        } else {
            let b = f[3].as_bytes();
            if b.len() != 2 || !(b'a'..=b'h').contains(&b[0]) {
                return Err("bad ep".into());
            }
            Some(b[0] - b'a')
        };
        let hmc = if f.len() > 4 {
            f[4].parse().map_err(|_| "bad hmc")?
        } else {
            0
        };
        let fmn = if f.len() > 5 {
            f[5].parse().map_err(|_| "bad fmn")?
        } else {
            1
        };
        Ok(Self {
            sq: sqs,
            white,
            castle,
            ep,
            hmc,
            fmn,
        })
    }

    pub fn to_fen(&self) -> String {
        let mut s = String::new();
        for rank in (0..8).rev() {
            let mut empty = 0;
            for file in 0..8 {
                let p = self.sq[sq(file, rank) as usize];
                if p == EMPTY {
                    empty += 1;
                } else {
                    if empty > 0 {
                        s.push_str(&empty.to_string());
                        empty = 0;
                    }
                    s.push(piece_char(p));
                }
            }
            if empty > 0 {
                s.push_str(&empty.to_string());
            }
            if rank > 0 {
                s.push('/');
            }
        }
        s.push(' ');
        s.push(if self.white { 'w' } else { 'b' });
        s.push(' ');
        let mut c = String::new();
        for (i, ch) in ['K', 'Q', 'k', 'q'].iter().enumerate() {
            if self.castle[i] {
                c.push(*ch);
            }
        }
        if c.is_empty() {
            c.push('-');
        }
        s.push_str(&c);
        s.push(' ');
        match self.ep {
            Some(f) => {
                s.push((b'a' + f) as char);
                s.push(if self.white { '6' } else { '3' });
            }
            None => s.push('-'),
        }
        s.push_str(&format!(" {} {}", self.hmc, self.fmn));
        s
    }

    pub fn king_sq(&self, white: bool) -> Option<u8> {
        let k = K | if white { 0 } else { BLACK };
        (0..64u8).find(|&s| self.sq[s as usize] == k)
    }

    /// Is square `s` attacked by the side `by_white`?
    pub fn attacked(&self, s: u8, by_white: bool) -> bool {
        let f = file_of(s);
        let r = rank_of(s);
        let side = if by_white { 0 } else { BLACK };
        // pawns: a white pawn on (f±1, r-1) attacks (f, r)
        let pr = if by_white { r - 1 } else { r + 1 };
        for df in [-1i8, 1] {
            if on_board(f + df, pr) && self.sq[sq(f + df, pr) as usize] == (P | side) {
                return true;
            }
        }
        for (df, dr) in KNIGHT_D {
            if on_board(f + df, r + dr) && self.sq[sq(f + df, r + dr) as usize] == (N | side) {
                return true;
            }
        }
        for (df, dr) in KING_D {
            if on_board(f + df, r + dr) && self.sq[sq(f + df, r + dr) as usize] == (K | side) {
                return true;
            }
        }
        for (dirs, a, b) in [(&ROOK_D, R, Q), (&BISHOP_D, B, Q)] {
            for &(df, dr) in dirs.iter() {
                let (mut ff, mut rr) = (f + df, r + dr);
                while on_board(ff, rr) {
                    let p = self.sq[sq(ff, rr) as usize];
                    if p != EMPTY {
                        if p == (a | side) || p == (b | side) {
                            return true;
                        }
                        break;
                    }
                    ff += df;
                    rr += dr;
                }
            }
        }
        false
    }

    pub fn in_check(&self, white: bool) -> bool {
        match self.king_sq(white) {
            Some(k) => self.attacked(k, !white),
            None => false,
        }
    }

    fn push_pawn_moves(&self, out: &mut Vec<Mv>, from: u8, to: u8, capture: bool, ep: bool, double: bool) {
        let last = if self.white { 7 } else { 0 };
        if rank_of(to) == last {
            for promo in [Q, R, B, N] {
                out.push(Mv {
                    from,
                    to,
                    promo,
                    castle: false,
                    ep,
                    double,
                    capture,
                });
            }
        } else {
            out.push(Mv {
                from,
                to,
                promo: 0,
                castle: false,
                ep,
                double,
                capture,
            });
        }
    }

    pub fn pseudo_moves(&self) -> Vec<Mv> {
        let mut out = Vec::with_capacity(48);
        let side = if self.white { 0 } else { BLACK };
        for s in 0..64u8 {
            let p = self.sq[s as usize];
            if p == EMPTY || (p & BLACK) != side {
                continue;
            }
            let f = file_of(s);
            let r = rank_of(s);
            match ptype(p) {
                P => {
                    let dir: i8 = if self.white { 1 } else { -1 };
                    let start_rank = if self.white { 1 } else { 6 };
                    let ep_rank = if self.white { 4 } else { 3 };
                    if on_board(f, r + dir) && self.sq[sq(f, r + dir) as usize] == EMPTY {
                        self.push_pawn_moves(&mut out, s, sq(f, r + dir), false, false, false);
                        if r == start_rank && self.sq[sq(f, r + 2 * dir) as usize] == EMPTY {
                            self.push_pawn_moves(&mut out, s, sq(f, r + 2 * dir), false, false, true);
                        }
                    }
                    for df in [-1i8, 1] {
                        if !on_board(f + df, r + dir) {
                            continue;
                        }
                        let t = sq(f + df, r + dir);
                        let tp = self.sq[t as usize];
                        if tp != EMPTY && (tp & BLACK) != side {
                            self.push_pawn_moves(&mut out, s, t, true, false, false);
                        } else if tp == EMPTY
                            && r == ep_rank
                            && self.ep == Some((f + df) as u8)
                            && self.sq[sq(f + df, r) as usize] == (P | (side ^ BLACK))
                        {
                            self.push_pawn_moves(&mut out, s, t, true, true, false);
                        }
                    }
                }
                N | K => {
                    let d = if ptype(p) == N { &KNIGHT_D } else { &KING_D };
                    for &(df, dr) in d.iter() {
                        if !on_board(f + df, r + dr) {
                            continue;
                        }
                        let t = sq(f + df, r + dr);
                        let tp = self.sq[t as usize];
                        if tp == EMPTY || (tp & BLACK) != side {
                            out.push(Mv {
                                from: s,
                                to: t,
                                promo: 0,
                                castle: false,
                                ep: false,
                                double: false,
                                capture: tp != EMPTY,
                            });
                        }
                    }
                    if ptype(p) == K {
                        self.castle_moves(&mut out, s);
                    }
                }
                _ => {
                    let dirs: &[(i8, i8)] = match ptype(p) {
                        R => &ROOK_D,
                        B => &BISHOP_D,
                        _ => &KING_D,
                    };
                    for &(df, dr) in dirs {
                        let (mut ff, mut rr) = (f + df, r + dr);
                        while on_board(ff, rr) {
                            let t = sq(ff, rr);
                            let tp = self.sq[t as usize];
                            if tp == EMPTY {
                                out.push(Mv {
                                    from: s,
                                    to: t,
                                    promo: 0,
                                    castle: false,
                                    ep: false,
                                    double: false,
                                    capture: false,
                                });
                            } else {
                                if (tp & BLACK) != side {
                                    out.push(Mv {
                                        from: s,
                                        to: t,
                                        promo: 0,
                                        castle: false,
                                        ep: false,
                                        double: false,
                                        capture: true,
                                    });
                                }
                                break;
                            }
                            ff += df;
                            rr += dr;
                        }
                    }
                }
            }
        }
        out
    }

    fn castle_moves(&self, out: &mut Vec<Mv>, ks: u8) {
        let (home, side, kidx, qidx) = if self.white {
            (4u8, 0u8, 0usize, 1usize)
        } else {
            (60u8, BLACK, 2usize, 3usize)
        };
        if ks != home {
            return;
        }
        let enemy_white = !self.white;
        // kingside
        if self.castle[kidx]
            && self.sq[(home + 3) as usize] == (R | side)
            && self.sq[(home + 1) as usize] == EMPTY
            && self.sq[(home + 2) as usize] == EMPTY
            && !self.attacked(home, enemy_white)
            && !self.attacked(home + 1, enemy_white)
            && !self.attacked(home + 2, enemy_white)
        {
            out.push(Mv {
                from: home,
                to: home + 2,
                promo: 0,
                castle: true,
                ep: false,
                double: false,
                capture: false,
            });
        }
        if self.castle[qidx]
            && self.sq[(home - 4) as usize] == (R | side)
            && self.sq[(home - 1) as usize] == EMPTY
            && self.sq[(home - 2) as usize] == EMPTY
            && self.sq[(home - 3) as usize] == EMPTY
            && !self.attacked(home, enemy_white)
            && !self.attacked(home - 1, enemy_white)
            && !self.attacked(home - 2, enemy_white)
        {
            out.push(Mv {
                from: home,
                to: home - 2,
                promo: 0,
                castle: true,
                ep: false,
                double: false,
                capture: false,
            });
        }
    }

    /// Apply a (pseudo-legal) move and return the resulting position.
    pub fn make(&self, m: Mv) -> Pos {
        let mut n = self.clone();
        let p = n.sq[m.from as usize];
        let captured = if m.ep {
            let cs = sq(file_of(m.to), rank_of(m.from));
            let c = n.sq[cs as usize];
            n.sq[cs as usize] = EMPTY;
            c
        } else {
            n.sq[m.to as usize]
        };
        n.sq[m.from as usize] = EMPTY;
        n.sq[m.to as usize] = if m.promo != 0 { m.promo | (p & BLACK) } else { p };
        if m.castle {
            let (rf, rt) = match m.to {
                6 => (7u8, 5u8),
                2 => (0, 3),
                62 => (63, 61),
                58 => (56, 59),
                _ => (m.to, m.to),
            };
            n.sq[rt as usize] = n.sq[rf as usize];
            n.sq[rf as usize] = EMPTY;
        }
        // castling rights
        if ptype(p) == K {
            if is_black(p) {
                n.castle[2] = false;
                n.castle[3] = false;
            } else {
                n.castle[0] = false;
                n.castle[1] = false;
            }
        }
        for s in [m.from, m.to] {
            match s {
                7 => n.castle[0] = false,
                0 => n.castle[1] = false,
                63 => n.castle[2] = false,
                56 => n.castle[3] = false,
                _ => {}
            }
        }
        n.ep = if m.double { Some(file_of(m.to) as u8) } else { None };
        n.hmc = if ptype(p) == P || captured != EMPTY { 0 } else { self.hmc + 1 };
        if !self.white {
            n.fmn += 1;
        }
        n.white = !self.white;
        n
    }

    pub fn legal_moves(&self) -> Vec<Mv> {
        let me = self.white;
        self.pseudo_moves()
            .into_iter()
            .filter(|&m| !self.make(m).in_check(me))
            .collect()
    }

    /// Pseudo-legal moves that are NOT legal (leave own king in check).
    pub fn illegal_pseudo_moves(&self) -> Vec<Mv> {
        let me = self.white;
        self.pseudo_moves()
            .into_iter()
            .filter(|&m| self.make(m).in_check(me))
            .collect()
    }

    pub fn find_uci(&self, s: &str) -> Option<Mv> {
        self.legal_moves().into_iter().find(|m| m.uci() == s)
    }

    pub fn is_checkmate(&self) -> bool {
        self.in_check(self.white) && self.legal_moves().is_empty()
    }

    pub fn is_stalemate(&self) -> bool {
        !self.in_check(self.white) && self.legal_moves().is_empty()
    }

    pub fn perft(&self, depth: u32) -> u64 {
        if depth == 0 {
            return 1;
        }
        let ms = self.legal_moves();
        if depth == 1 {
            return ms.len() as u64;
        }
        ms.into_iter().map(|m| self.make(m).perft(depth - 1)).sum()
    }

    /// Sanity: exactly one king each, side not to move is not in check, no pawns on back ranks.
    pub fn is_sane(&self) -> bool {
        let wk = self.sq.iter().filter(|&&p| p == K).count();
        let bk = self.sq.iter().filter(|&&p| p == (K | BLACK)).count();
        if wk != 1 || bk != 1 {
            return false;
        }
        for f in 0..8 {
            for r in [0, 7] {
                if ptype(self.sq[sq(f, r) as usize]) == P {
                    return false;
                }
            }
        }
        !self.in_check(!self.white)
    }

    pub fn piece_count(&self) -> usize {
        self.sq.iter().filter(|&&p| p != EMPTY).count()
    }

    /// Identity for repetition purposes (placement, side, rights, ep file).
    pub fn rep_key(&self) -> (Vec<u8>, bool, [bool; 4], Option<u8>) {
        (self.sq.to_vec(), self.white, self.castle, self.ep)
    }
}

pub fn piece_char(p: u8) -> char {
    let c = match ptype(p) {
        P => 'p',
        N => 'n',
        B => 'b',
        R => 'r',
        Q => 'q',
        K => 'k',
        _ => '?',
    };
    if is_black(p) {
        c
    } else {
        c.to_ascii_uppercase()
    }
}

// ------------------------------------------------------------------ mate solver

pub struct Solver {
    pub nodes: u64,
    pub budget: u64,
}

impl Solver {
    pub fn new(budget: u64) -> Self {
        Self { nodes: 0, budget }
    }

    /// Can the side to move force checkmate within `n` of its own moves?
    /// Some(true/false) if settled, None if the node budget ran out.
    pub fn mate_in(&mut self, pos: &Pos, n: u32) -> Option<bool> {
        if n == 0 {
            return Some(false);
        }
        self.nodes += 1;
        if self.nodes > self.budget {
            return None;
        }
        let mut unknown = false;
        for m in pos.legal_moves() {
            let p2 = pos.make(m);
            let replies = p2.legal_moves();
            // the budget counts positions generated, not calls
            self.nodes += 1 + replies.len() as u64;
            if self.nodes > self.budget {
                return None;
            }
            if replies.is_empty() {
                if p2.in_check(p2.white) {
                    return Some(true);
                }
                continue; // stalemate
            }
            if n == 1 {
                continue;
            }
            // every reply must lead to mate in n-1
            let mut all = true;
            for r in replies {
                let p3 = p2.make(r);
                match self.mate_in(&p3, n - 1) {
                    Some(true) => {}
                    Some(false) => {
                        all = false;
                        break;
                    }
                    None => {
                        all = false;
                        unknown = true;
                        break;
                    }
                }
            }
            if all {
                return Some(true);
            }
        }
        if unknown {
            None
        } else {
            Some(false)
        }
    }

    /// Moves that checkmate at once.
    pub fn mating_moves(pos: &Pos) -> Vec<Mv> {
        pos.legal_moves()
            .into_iter()
            .filter(|&m| pos.make(m).is_checkmate())
            .collect()
    }
}

// -------------------------------------------------------------------- playouts

/// Pick a legal move with a bias towards the rare kinds.
pub fn biased_move(pos: &Pos, rng: &mut Rng) -> Option<Mv> {
    let ms = pos.legal_moves();
    if ms.is_empty() {
        return None;
    }
    let mut weights: Vec<u64> = Vec::with_capacity(ms.len());
    for m in &ms {
        let mut w = 4;
        if m.castle {
            w += 40;
        }
        if m.ep {
            w += 60;
        }
        if m.promo != 0 {
            w += 12;
        }
        if m.double {
            w += 4;
        }
        if m.capture {
            w += 4;
            if matches!(m.to, 0 | 7 | 56 | 63) {
                w += 30;
            }
        }
        weights.push(w);
    }
    let total: u64 = weights.iter().sum();
    let mut x = rng.below(total);
    for (i, w) in weights.iter().enumerate() {
        if x < *w {
            return Some(ms[i]);
        }
        x -= w;
    }
    Some(ms[ms.len() - 1])
}

/// A random legal game from `start`: returns moves and the positions visited (len = moves+1).
pub fn playout(start: &Pos, max_plies: usize, rng: &mut Rng, biased: bool) -> (Vec<Mv>, Vec<Pos>) {
    let mut moves = Vec::new();
    let mut positions = vec![start.clone()];
    let mut cur = start.clone();
    for _ in 0..max_plies {
        let m = if biased {
            biased_move(&cur, rng)
        } else {
            let ms = cur.legal_moves();
            if ms.is_empty() {
                None
            } else {
                Some(ms[rng.usize_below(ms.len())])
            }
        };
        let Some(m) = m else { break };
        cur = cur.make(m);
        moves.push(m);
        positions.push(cur.clone());
    }
    (moves, positions)
}

// ------------------------------------------------------------------- self-test

pub const PERFT_SUITE: &[(&str, &[u64])] = &[
    (START_FEN, &[20, 400, 8902, 197_281]),
    (
        "r3k2r/p1ppqpb1/bn2pnp1/3PN3/1p2P3/2N2Q1p/PPPBBPPP/R3K2R w KQkq - 0 1",
        &[48, 2039, 97862],
    ),
    ("8/2p5/3p4/KP5r/1R3p1k/8/4P1P1/8 w - - 0 1", &[14, 191, 2812, 43238]),
    (
        "r3k2r/Pppp1ppp/1b3nbN/nP6/BBP1P3/q4N2/Pp1P2PP/R2Q1RK1 w kq - 0 1",
        &[6, 264, 9467],
    ),
    (
        "rnbq1k1r/pp1Pbppp/2p5/8/2B5/8/PPP1NnPP/RNBQK2R w KQ - 1 8",
        &[44, 1486, 62379],
    ),
    (
        "r4rk1/1pp1qppp/p1np1n2/2b1p1B1/2B1P1b1/P1NP1N2/1PP1QPPP/R4RK1 w - - 0 10",
        &[46, 2079, 89890],
    ),
];

pub fn selftest() -> Result<u64, String> {
    let mut total = 0;
    for (fen, counts) in PERFT_SUITE {
        let pos = Pos::from_fen(fen)?;
        if pos.to_fen() != *fen {
            return Err(format!("FEN round trip failed for {fen}: {}", pos.to_fen()));
        }
        for (i, &c) in counts.iter().enumerate() {
            let got = pos.perft(i as u32 + 1);
            if got != c {
                return Err(format!("perft({}) of {fen}: got {got}, want {c}", i + 1));
            }
            total += got;
        }
    }
    // Mate solver spot checks.
    let m1 = Pos::from_fen("6k1/5ppp/8/8/8/8/8/R3K3 w - - 0 1")?;
    if Solver::new(1_000_000).mate_in(&m1, 1) != Some(true) {
        return Err("solver missed back-rank mate in 1".into());
    }
    let m2 = Pos::from_fen("8/1R6/2N2P2/2kP4/2P4P/3P4/8/6K1 w - - 1 94")?;
    if Solver::new(5_000_000).mate_in(&m2, 1) != Some(false) {
        return Err("solver found bogus mate in 1".into());
    }
    let no = Pos::start();
    if Solver::new(5_000_000).mate_in(&no, 2) != Some(false) {
        return Err("solver found mate in 2 from the start".into());
    }
    Ok(total)
}
