//! Seeded generators shared by the property scenarios: positions, search limits,
//! stream faults, machine models and schedule policies.

use super::kernel::{Action, Plan, Policy, Term, L};
use super::refmodel::{playout, Mv, Pos, B, BLACK, EMPTY, K, N, P, Q, R};
use super::rng::Rng;

/// Hand-picked positions: tactical, in check, single legal move, nearly stalemated,
/// mate-in-1, promotions, en-passant, castling both sides. Every one has a legal move.
pub const CURATED: &[&str] = &[
    "r3k2r/p1ppqpb1/bn2pnp1/3PN3/1p2P3/2N2Q1p/PPPBBPPP/R3K2R w KQkq - 0 1",
    "8/2p5/3p4/KP5r/1R3p1k/8/4P1P1/8 w - - 0 1",
    "r3k2r/Pppp1ppp/1b3nbN/nP6/BBP1P3/q4N2/Pp1P2PP/R2Q1RK1 w kq - 0 1",
    "rnbq1k1r/pp1Pbppp/2p5/8/2B5/8/PPP1NnPP/RNBQK2R w KQ - 1 8",
    "r4rk1/1pp1qppp/p1np1n2/2b1p1B1/2B1P1b1/P1NP1N2/1PP1QPPP/R4RK1 w - - 0 10",
    "6k1/5ppp/8/8/8/8/8/R3K3 w Q - 0 1",
    "8/1R6/2N2P2/2kP4/2P4P/3P4/8/6K1 w - - 1 94",
    "k7/8/1K6/8/8/8/8/7R w - - 0 1",
    "4k3/8/8/8/8/8/4P3/4K3 w - - 0 1",
    "8/P6k/8/8/8/8/p6K/8 w - - 0 1",
    "8/P6k/8/8/8/8/p6K/8 b - - 0 1",
    "rnbqkbnr/ppp1p1pp/8/3pPp2/8/8/PPPP1PPP/RNBQKBNR w KQkq f6 0 3",
    "rnbqkbnr/pppp1ppp/8/8/3Pp3/8/PPP1PPPP/RNBQKBNR b KQkq d3 0 2",
    "r3k2r/8/8/8/8/8/8/R3K2R w KQkq - 0 1",
    "r3k2r/8/8/8/8/8/8/R3K2R b KQkq - 0 1",
    "4k3/8/8/8/8/8/8/4K2R w K - 0 1",
    "r3k3/8/8/8/8/8/8/4K3 b q - 0 1",
    "3rk3/8/8/8/8/8/8/R3K3 w Q - 0 1",
    "4k3/8/8/8/8/5n2/8/R3K2R w KQ - 0 1",
    "8/8/8/8/8/5k2/7p/7K w - - 0 1",
    "1k6/8/1K6/8/8/8/8/2R5 w - - 10 40",
    "r1bqkb1r/pppp1ppp/2n2n2/4p2Q/2B1P3/8/PPPP1PPP/RNB1K1NR w KQkq - 4 4",
    "4r1k1/5ppp/8/8/8/8/5PPP/4R1K1 w - - 0 1",
    "2kr3r/ppp2ppp/2n5/8/8/2N5/PPP2PPP/2KR3R w - - 0 1",
    "8/8/8/3k4/8/3K4/3P4/8 w - - 0 1",
    "8/5k2/8/8/8/8/1p3K2/8 b - - 0 1",
    "r1b1k2r/ppppnppp/2n2q2/2b5/3NP3/2P1B3/PP3PPP/RN1QKB1R w KQkq - 3 7",
    "2r3k1/pp3ppp/8/8/8/8/PP3PPP/2R3K1 b - - 0 1",
    "5rk1/5ppp/8/8/8/8/5PPP/5RK1 w - - 99 80",
    "6k1/6P1/6K1/8/8/8/8/7r w - - 0 1",
    "r3k2r/pppq1ppp/2npbn2/2b1p3/2B1P3/2NPBN2/PPPQ1PPP/R3K2R w KQkq - 6 8",
    "r3k2r/pppq1ppp/2npbn2/2b1p3/2B1P3/2NPBN2/PPPQ1PPP/R3K2R b KQkq - 6 8",
    "1n2k3/P7/8/8/8/8/7p/4K1N1 w - - 0 1",
    "1n2k3/P7/8/8/8/8/7p/4K1N1 b - - 0 1",
    // after any black move White has no move at all, not even a pseudo-legal one (walled-in stalemate)
    "7k/8/8/8/1p6/pPp5/PRP5/KB6 b - - 0 1",
    "kb6/prp5/PpP5/1P6/8/8/8/7K w - - 0 1",
];

/// The engine's own bench positions (data, not code): realistic middlegames and endings.
pub const BENCH_FENS: &[&str] = &[
    "r3k2r/2pb1ppp/2pp1q2/p7/1nP1B3/1P2P3/P2N1PPP/R2QK2R w KQkq a6 0 14",
    "4rrk1/2p1b1p1/p1p3q1/4p3/2P2n1p/1P1NR2P/PB3PP1/3R1QK1 b - - 2 24",
    "r3qbrk/6p1/2b2pPp/p3pP1Q/PpPpP2P/3P1B2/2PB3K/R5R1 w - - 16 42",
    "6k1/1R3p2/6p1/2Bp3p/3P2q1/P7/1P2rQ1K/5R2 b - - 4 44",
    "8/8/1p2k1p1/3p3p/1p1P1P1P/1P2PK2/8/8 w - - 3 54",
    "7r/2p3k1/1p1p1qp1/1P1Bp3/p1P2r1P/P7/4R3/Q4RK1 w - - 0 36",
    "r1bq1rk1/pp2b1pp/n1pp1n2/3P1p2/2P1p3/2N1P2N/PP2BPPP/R1BQ1RK1 b - - 2 10",
    "3r3k/2r4p/1p1b3q/p4P2/P2Pp3/1B2P3/3BQ1RP/6K1 w - - 3 87",
    "2r4r/1p4k1/1Pnp4/3Qb1pq/8/4BpPp/5P2/2RR1BK1 w - - 0 42",
    "4q1bk/6b1/7p/p1p4p/PNPpP2P/KN4P1/3Q4/4R3 b - - 0 37",
    "2q3r1/1r2pk2/pp3pp1/2pP3p/P1Pb1BbP/1P4Q1/R3NPP1/4R1K1 w - - 2 34",
    "1r2r2k/1b4q1/pp5p/2pPp1p1/P3Pn2/1P1B1Q1P/2R3P1/4BR1K b - - 1 37",
    "r3kbbr/pp1n1p1P/3ppnp1/q5N1/1P1pP3/P1N1B3/2P1QP2/R3KB1R b KQkq b3 0 17",
    "8/6pk/2b1Rp2/3r4/1R1B2PP/P5K1/8/2r5 b - - 16 42",
    "1r4k1/4ppb1/2n1b1qp/pB4p1/1n1BP1P1/7P/2PNQPK1/3RN3 w - - 8 29",
    "8/p2B4/PkP5/4p1pK/4Pb1p/5P2/8/8 w - - 29 68",
    "3r4/ppq1ppkp/4bnp1/2pN4/2P1P3/1P4P1/PQ3PBP/R4K2 b - - 2 20",
    "5rr1/4n2k/4q2P/P1P2n2/3B1p2/4pP2/2N1P3/1RR1K2Q w - - 1 49",
    "1r5k/2pq2p1/3p3p/p1pP4/4QP2/PP1R3P/6PK/8 w - - 1 51",
    "q5k1/5ppp/1r3bn1/1B6/P1N2P2/BQ2P1P1/5K1P/8 b - - 2 34",
    "r1b2k1r/5n2/p4q2/1ppn1Pp1/3pp1p1/NP2P3/P1PPBK2/1RQN2R1 w - - 0 22",
    "r1bqk2r/pppp1ppp/5n2/4b3/4P3/P1N5/1PP2PPP/R1BQKB1R w KQkq - 0 5",
    "r1bqr1k1/pp1p1ppp/2p5/8/3N1Q2/P2BB3/1PP2PPP/R3K2n b Q - 1 12",
    "r1bq2k1/p4r1p/1pp2pp1/3p4/1P1B3Q/P2B1N2/2P3PP/4R1K1 b - - 2 19",
    "r4qk1/6r1/1p4p1/2ppBbN1/1p5Q/P7/2P3PP/5RK1 w - - 2 25",
    "r7/6k1/1p6/2pp1p2/7Q/8/p1P2K1P/8 w - - 0 32",
    "r3k2r/ppp1pp1p/2nqb1pn/3p4/4P3/2PP4/PP1NBPPP/R2QK1NR w KQkq - 1 5",
    "3r1rk1/1pp1pn1p/p1n1q1p1/3p4/Q3P3/2P5/PP1NBPPP/4RRK1 w - - 0 12",
    "5rk1/1pp1pn1p/p3Brp1/8/1n6/5N2/PP3PPP/2R2RK1 w - - 2 20",
    "8/1p2pk1p/p1p1r1p1/3n4/8/5R2/PP3PPP/4R1K1 b - - 3 27",
    "8/4pk2/1p1r2p1/p1p4p/Pn5P/3R4/1P3PP1/4RK2 w - - 1 33",
    "8/5k2/1pnrp1p1/p1p4p/P6P/4R1PK/1P3P2/4R3 b - - 1 38",
    "8/8/1p1kp1p1/p1pr1n1p/P6P/1R4P1/1P3PK1/1R6 b - - 15 45",
    "8/8/1p1k2p1/p1prp2p/P2n3P/6P1/1P1R1PK1/4R3 b - - 5 49",
    "8/8/1p4p1/p1p2k1p/P2npP1P/4K1P1/1P6/3R4 w - - 6 54",
    "8/8/1p4p1/p1p2k1p/P2n1P1P/4K1P1/1P6/6R1 b - - 6 59",
    "8/5k2/1p4p1/p1pK3p/P2n1P1P/6P1/1P6/4R3 b - - 14 63",
    "8/1R6/1p1K1kp1/p6p/P1p2P1P/6P1/1Pn5/8 w - - 0 67",
    "1rb1rn1k/p3q1bp/2p3p1/2p1p3/2P1P2N/PP1RQNP1/1B3P2/4R1K1 b - - 4 23",
    "4rrk1/pp1n1pp1/q5p1/P1pP4/2n3P1/7P/1P3PB1/R1BQ1RK1 w - - 3 22",
    "r2qr1k1/pb1nbppp/1pn1p3/2ppP3/3P4/2PB1NN1/PP3PPP/R1BQR1K1 w - - 4 12",
    "2r2k2/8/4P1R1/1p6/8/P4K1N/7b/2B5 b - - 0 55",
    "6k1/5pp1/8/2bKP2P/2P5/p4PNb/B7/8 b - - 1 44",
    "2rqr1k1/1p3p1p/p2p2p1/P1nPb3/2B1P3/5P2/1PQ2NPP/R1R4K w - - 3 25",
    "r1b2rk1/p1q1ppbp/6p1/2Q5/8/4BP2/PPP3PP/2KR1B1R b - - 2 14",
    "6r1/5k2/p1b1r2p/1pB1p1p1/1Pp3PP/2P1R1K1/2P2P2/3R4 w - - 1 36",
    "rnbqkb1r/pppppppp/5n2/8/2PP4/8/PP2PPPP/RNBQKBNR b KQkq c3 0 2",
    "2rr2k1/1p4bp/p1q1p1p1/4Pp1n/2PB4/1PN3P1/P3Q2P/2RR2K1 w - f6 0 20",
    "3br1k1/p1pn3p/1p3n2/5pNq/2P1p3/1PN3PP/P2Q1PB1/4R1K1 w - - 0 23",
    "2r2b2/5p2/5k2/p1r1pP2/P2pB3/1P3P2/K1P3R1/7R w - - 23 93",
    "5k2/4q1p1/3P1pQb/1p1B4/pP5p/P1PR4/5PP1/1K6 b - - 0 38",
    "6k1/6p1/8/6KQ/1r6/q2b4/8/8 w - - 0 32",
    "5rk1/1rP3pp/p4n2/3Pp3/1P2Pq2/2Q4P/P5P1/R3R1K1 b - - 0 32",
    "4r1k1/4r1p1/8/p2R1P1K/5P1P/1QP3q1/1P6/3R4 b - - 0 1",
    "R4r2/4q1k1/2p1bb1p/2n2B1Q/1N2pP2/1r2P3/1P5P/2B2KNR w - - 3 31",
    "r6k/pbR5/1p2qn1p/P2pPr2/4n2Q/1P2RN1P/5PBK/8 w - - 2 31",
    "rn2k3/4r1b1/pp1p1n2/1P1q1p1p/3P4/P3P1RP/1BQN1PR1/1K6 w - - 6 28",
    "3q1k2/3P1rb1/p6r/1p2Rp2/1P5p/P1N2pP1/5B1P/3QRK2 w - - 1 42",
    "4r2k/1p3rbp/2p1N1p1/p3n3/P2NB1nq/1P6/4R1P1/B1Q2RK1 b - - 4 32",
    "4r1k1/1q1r3p/2bPNb2/1p1R3Q/pB3p2/n5P1/6B1/4R1K1 w - - 2 36",
    "3qr2k/1p3rbp/2p3p1/p7/P2pBNn1/1P3n2/6P1/B1Q1RR1K b - - 1 30",
    "3qk1b1/1p4r1/1n4r1/2P1b2B/p3N2p/P2Q3P/8/1R3R1K w - - 2 39",
];

pub fn corpus_selftest() -> Result<usize, String> {
    let mut n = 0;
    for f in CURATED.iter().chain(BENCH_FENS.iter()) {
        let p = Pos::from_fen(f).map_err(|e| format!("{f}: {e}"))?;
        if !p.is_sane() {
            return Err(format!("corpus FEN not sane: {f}"));
        }
        if p.legal_moves().is_empty() {
            return Err(format!("corpus FEN has no legal move: {f}"));
        }
        if p.to_fen() != *f {
            return Err(format!("corpus FEN does not round-trip: {f} -> {}", p.to_fen()));
        }
        n += 1;
    }
    Ok(n)
}

/// A random sparse position (kings plus a few pieces), sane, with a legal move.
pub fn sparse_position(rng: &mut Rng) -> Pos {
    loop {
        let mut sqs = [EMPTY; 64];
        let mut place = |sqs: &mut [u8; 64], p: u8, rng: &mut Rng| loop {
            let s = rng.usize_below(64);
            if sqs[s] != EMPTY {
                continue;
            }
            if (p & 7) == P && (s < 8 || s >= 56) {
                continue;
            }
            sqs[s] = p;
            break;
        };
        place(&mut sqs, K, rng);
        place(&mut sqs, K | BLACK, rng);
        let extra = rng.range(1, 6);
        for _ in 0..extra {
            let t = *rng.pick(&[P, P, P, N, B, R, R, Q]);
            let c = if rng.chance(1, 2) { 0 } else { BLACK };
            place(&mut sqs, t | c, rng);
        }
        let pos = Pos {
            sq: sqs,
            white: rng.chance(1, 2),
            castle: [false; 4],
            ep: None,
            hmc: rng.below(30) as u32,
            fmn: rng.range(1, 120) as u32,
        };
        if pos.is_sane() && !pos.legal_moves().is_empty() {
            // kings must not be adjacent (is_sane covers: side not to move not in check;
            // adjacency would put both in check)
            if !pos.in_check(pos.white) || pos.legal_moves().len() > 0 {
                return pos;
            }
        }
    }
}

/// "for all positions": also those with far more moves than any game position has - the side
/// to move has a king and eight to eleven queens and rooks (more than 128 pseudo-legal moves
/// where it can be had; the record for a legal position is 218).
pub fn high_mobility_position(rng: &mut Rng) -> Pos {
    let mut best: Option<(usize, Pos)> = None;
    for _ in 0..400 {
        let mut sqs = [EMPTY; 64];
        let white = rng.chance(1, 2);
        let (me, other) = if white { (0, BLACK) } else { (BLACK, 0) };
        let mut free: Vec<usize> = (0..64).collect();
        rng.shuffle(&mut free);
        let mut take = || free.pop().unwrap();
        sqs[take()] = K | me;
        sqs[take()] = K | other;
        for _ in 0..rng.range(8, 12) {
            sqs[take()] = if rng.chance(4, 5) { Q | me } else { R | me };
        }
        for _ in 0..rng.below(3) {
            let s = take();
            if (8..56).contains(&s) {
                sqs[s] = P | other;
            }
        }
        let pos = Pos {
            sq: sqs,
            white,
            castle: [false; 4],
            ep: None,
            hmc: rng.below(30) as u32,
            fmn: rng.range(1, 120) as u32,
        };
        if !pos.is_sane() || pos.legal_moves().is_empty() {
            continue;
        }
        let n = pos.pseudo_moves().len();
        if n > 128 {
            return pos;
        }
        if best.as_ref().is_none_or(|(b, _)| n > *b) {
            best = Some((n, pos));
        }
    }
    best.map_or_else(|| sparse_position(rng), |(_, p)| p)
}

#[derive(Clone, Debug)]
pub struct PosSpec {
    /// The `position ...` line that sets it up.
    pub cmd: String,
    /// All positions of the game described by cmd; last is current.
    pub game: Vec<Pos>,
    pub dense: bool,
}

impl PosSpec {
    pub fn pos(&self) -> &Pos {
        self.game.last().unwrap()
    }
}

pub fn moves_str(ms: &[Mv]) -> String {
    ms.iter().map(Mv::uci).collect::<Vec<_>>().join(" ")
}

/// A position that has at least one legal move, with the command that reaches it.
pub fn random_posspec(rng: &mut Rng) -> PosSpec {
    loop {
        let kind = rng.below(10);
        let (start, from_start) = match kind {
            0..=2 => (Pos::start(), true),
            3..=5 => (Pos::from_fen(rng.pick(CURATED)).unwrap(), false),
            6..=7 => (Pos::from_fen(rng.pick(BENCH_FENS)).unwrap(), false),
            8 => (sparse_position(rng), false),
            _ => {
                if rng.chance(1, 6) {
                    (high_mobility_position(rng), false)
                } else {
                    (sparse_position(rng), false)
                }
            }
        };
        let plies = if from_start {
            rng.below(50) as usize
        } else if rng.chance(1, 2) {
            0
        } else {
            rng.below(8) as usize
        };
        let (moves, positions) = playout(&start, plies, rng, true);
        if positions.last().unwrap().legal_moves().is_empty() {
            continue;
        }
        // Sometimes give the final position directly as a FEN instead of a move list.
        let as_fen = !moves.is_empty() && rng.chance(1, 3);
        let (cmd, game) = if as_fen {
            let p = positions.last().unwrap().clone();
            (format!("position fen {}", p.to_fen()), vec![p])
        } else {
            let head = if from_start && rng.chance(3, 4) {
                "position startpos".to_string()
            } else {
                format!("position fen {}", start.to_fen())
            };
            if moves.is_empty() {
                (head, positions)
            } else {
                (format!("{head} moves {}", moves_str(&moves)), positions)
            }
        };
        let last = game.last().unwrap();
        let dense = last.piece_count() > 12 || last.pseudo_moves().len() > 100;
        return PosSpec { cmd, game, dense };
    }
}

#[derive(Clone, Debug, Default, PartialEq)]
pub struct Limits {
    pub depth: Option<u64>,
    pub nodes: Option<u64>,
    pub movetime: Option<u64>,
    pub wtime: Option<u64>,
    pub btime: Option<u64>,
    pub winc: Option<u64>,
    pub binc: Option<u64>,
    pub infinite: bool,
}

impl Limits {
    pub fn line(&self, rng: Option<&mut Rng>) -> String {
        if self.infinite {
            return "go infinite".to_string();
        }
        let mut parts: Vec<String> = vec![];
        let mut add = |k: &str, v: Option<u64>| {
            if let Some(v) = v {
                parts.push(format!("{k} {v}"));
            }
        };
        add("wtime", self.wtime);
        add("btime", self.btime);
        add("winc", self.winc);
        add("binc", self.binc);
        add("depth", self.depth);
        add("nodes", self.nodes);
        add("movetime", self.movetime);
        if let Some(r) = rng {
            r.shuffle(&mut parts);
        }
        if parts.is_empty() {
            "go".to_string()
        } else {
            format!("go {}", parts.join(" "))
        }
    }

    pub fn parse(line: &str) -> Option<Limits> {
        let t: Vec<&str> = line.split_whitespace().collect();
        if t.first() != Some(&"go") {
            return None;
        }
        let mut l = Limits::default();
        let mut i = 1;
        while i < t.len() {
            let v = t.get(i + 1).and_then(|x| x.parse::<u64>().ok());
            match t[i] {
                "infinite" => {
                    return Some(Limits {
                        infinite: true,
                        ..Limits::default()
                    })
                }
                "depth" => l.depth = v,
                "nodes" => l.nodes = v,
                "movetime" => l.movetime = v,
                "wtime" => l.wtime = v,
                "btime" => l.btime = v,
                "winc" => l.winc = v,
                "binc" => l.binc = v,
                _ => {
                    i += 1;
                    continue;
                }
            }
            i += 2;
        }
        if l == Limits::default() {
            l.infinite = true; // bare `go` searches until stopped
        }
        Some(l)
    }

    /// Does any limit guarantee the search ends on its own?
    pub fn terminates(&self) -> bool {
        !self.infinite
            && (self.depth.is_some()
                || self.nodes.is_some()
                || self.movetime.is_some()
                || self.wtime.is_some()
                || self.btime.is_some()
                || self.winc.is_some()
                || self.binc.is_some())
    }

    /// The time (ms) the limits allow for the side to move: min(movetime, own clock).
    /// If neither is given but some clock figure is (only the opponent's clock, only
    /// increments), no reading of "the time the limits allow" can exceed the largest time
    /// figure in the command: that envelope is used.
    pub fn deadline_ms(&self, white_to_move: bool) -> Option<u64> {
        let own = if white_to_move { self.wtime } else { self.btime };
        match (self.movetime, own) {
            (Some(a), Some(b)) => Some(a.min(b)),
            (Some(a), None) => Some(a),
            (None, Some(b)) => Some(b),
            (None, None) => [self.wtime, self.btime, self.winc, self.binc]
                .iter()
                .flatten()
                .max()
                .copied(),
        }
    }
}

fn small_ms(rng: &mut Rng, max: u64) -> u64 {
    match rng.below(6) {
        0 => 0,
        1 => rng.below(3),
        2 => rng.below(20),
        3 => rng.below(max / 10 + 1),
        _ => rng.below(max + 1),
    }
}

/// A random mix of limits that is guaranteed to end without a `stop`.
pub fn random_limits(rng: &mut Rng, dense: bool) -> Limits {
    loop {
        let mut l = Limits::default();
        let maxd = if dense { 3 } else { 5 };
        if rng.chance(1, 2) {
            l.depth = Some(rng.range(1, maxd));
        }
        if rng.chance(2, 5) {
            l.nodes = Some(match rng.below(4) {
                0 => rng.range(1, 5),
                1 => rng.range(1, 200),
                _ => rng.range(1, 20_000),
            });
        }
        if rng.chance(1, 3) {
            l.movetime = Some(small_ms(rng, 200));
        }
        if rng.chance(1, 3) {
            l.wtime = Some(small_ms(rng, 5000));
        }
        if rng.chance(1, 3) {
            l.btime = Some(small_ms(rng, 5000));
        }
        if rng.chance(1, 5) {
            l.winc = Some(small_ms(rng, 3000));
        }
        if rng.chance(1, 5) {
            l.binc = Some(small_ms(rng, 3000));
        }
        if l.terminates() {
            return l;
        }
    }
}

/// Stream faults on one line: short reads, CRLF, EINTR.
pub fn decorate(a: &mut Action, rng: &mut Rng, intensity: u64) {
    if let Action::Send {
        line,
        cuts,
        term,
        eintr,
    } = a
    {
        // arbitrary white space between tokens is allowed (UCI): runs of blanks, tabs, and
        // blanks before and after the line
        if rng.below(100) < 4 * intensity && !line.is_empty() {
            let mut out = String::new();
            if rng.chance(1, 4) {
                out.push_str(if rng.chance(1, 2) { " " } else { "\t" });
            }
            for c in line.chars() {
                if c == ' ' {
                    match rng.below(8) {
                        0 => out.push_str("  "),
                        1 => out.push('\t'),
                        2 => out.push_str(" \t "),
                        _ => out.push(' '),
                    }
                } else {
                    out.push(c);
                }
            }
            if rng.chance(1, 4) {
                out.push(' ');
            }
            *line = out;
        }
        if rng.below(100) < 10 * intensity {
            let n = rng.range(1, 3);
            for _ in 0..n {
                cuts.push(rng.usize_below(line.len() + 2));
            }
        }
        if rng.below(100) < 5 * intensity {
            *term = Term::CrLf;
        }
        if rng.below(100) < 2 * intensity {
            *eintr = true;
        }
    }
}

pub fn decorate_all(script: &mut [Action], rng: &mut Rng, intensity: u64) {
    for a in script.iter_mut() {
        decorate(a, rng, intensity);
    }
}

/// Machine model: cost per unit of work and stall faults.
pub fn machine(plan: &mut Plan, rng: &mut Rng, expected_ticks: u64, allow_stalls: bool) {
    plan.cost_ns = *rng.pick(&[200, 1000, 1000, 5000, 25000]);
    if allow_stalls {
        // scheduling latency: what a context switch (incl. starting a thread) costs
        plan.switch_ns = *rng.pick(&[0, 0, 0, 1_000, 50_000, 2_000_000, 20_000_000]);
    }
    if allow_stalls && rng.chance(1, 3) {
        let n = rng.range(1, 3);
        for _ in 0..n {
            let at = rng.below(expected_ticks.max(10));
            let ns = match rng.below(3) {
                0 => rng.range(1_000_000, 10_000_000),
                1 => rng.range(10_000_000, 200_000_000),
                _ => rng.range(200_000_000, 2_000_000_000),
            };
            plan.stalls.push((at, ns));
        }
    }
}

pub const HOT: [L; 8] = [
    L::Spawn,
    L::FlagStoreT,
    L::FlagStoreF,
    L::OutBest,
    L::IsFinished,
    L::StdinRead,
    L::FlagLoad,
    L::Out,
];

/// Swarm-style choice of a schedule policy for one run.
pub fn schedule(plan: &mut Plan, rng: &mut Rng, expected_steps: u64) {
    plan.sched_seed = rng.next_u64();
    plan.policy = Some(match rng.below(10) {
        0..=1 => Policy::Quiet,
        2..=4 => Policy::Uniform(*rng.pick(&[0.002, 0.02, 0.2])),
        5..=6 => {
            let d = rng.range(1, 3);
            Policy::Points((0..d).map(|_| rng.below(expected_steps.max(4))).collect())
        }
        _ => {
            let mut mask: u16 = 0;
            for l in HOT {
                if rng.chance(1, 2) {
                    mask |= 1 << (l as u16);
                }
            }
            if mask == 0 {
                mask = 1 << (L::Spawn as u16);
            }
            Policy::Targeted(mask)
        }
    });
}

pub fn policy_name(p: &Option<Policy>) -> &'static str {
    match p {
        None => "replay",
        Some(Policy::Quiet) => "quiet",
        Some(Policy::Uniform(_)) => "uniform",
        Some(Policy::Points(_)) => "points",
        Some(Policy::Targeted(_)) => "targeted",
    }
}

pub fn piece_letter(t: u8) -> char {
    match t {
        N => 'n',
        B => 'b',
        R => 'r',
        Q => 'q',
        _ => '?',
    }
}
