//! C10 — stop is never lost and go is never dropped, under any timing.

use super::super::gen::{self, Limits};
use super::super::kernel::{Action, EndReason, EvK, Plan, RunRec};
use super::super::rng::Rng;
use super::super::session::history;
use super::{check_answers, common_stats, go_views, Outcome, Violation, I_ALLOW, W_ALLOW_TICKS};

const DELAYS: &[u64] = &[0, 0, 1, 2, 3, 5, 8, 13, 30, 60, 100, 300, 1000, 3000];

fn small_go(rng: &mut Rng, dense: bool) -> Limits {
    let mut l = Limits::default();
    match rng.below(6) {
        0 => l.depth = Some(rng.range(1, if dense { 2 } else { 3 })),
        1 => l.nodes = Some(rng.range(1, 3000)),
        2 => l.movetime = Some(rng.below(4)),
        3 | 4 => {
            // clock limits (the time-management branch ends the search without a stop)
            l.wtime = Some(rng.below(120));
            l.btime = Some(rng.below(120));
            if rng.chance(1, 3) {
                l.winc = Some(rng.below(8));
                l.binc = Some(rng.below(8));
            }
        }
        _ => {
            l.depth = Some(rng.range(1, 3));
            l.nodes = Some(rng.range(1, 2000));
        }
    }
    l
}

// ---------------------------------------------------------------- the sweep
// For a catalogue of fixed scripts, EVERY single preemption: each yield point of each
// thread (flag loads thinned out) x each other thread x three hold lengths. The first
// SWEEP_QUICK scripts are swept by the quick tier, all of them by the thorough tier.

pub const SWEEP_SPAN: u64 = 2048;
pub const SWEEP_QUICK: u64 = 13;
const SWEEP_POSITIONS: [&str; 3] = [
    "position startpos",
    "position fen r1bqkb1r/pppp1ppp/2n2n2/4p2Q/2B1P3/8/PPPP1PPP/RNB1K1NR b KQkq - 4 4",
    "position fen 8/2p5/3p4/KP5r/1R3p1k/8/4P1P1/8 w - - 0 1",
];

fn catalogue(i: u64) -> Option<Vec<Action>> {
    // family = i % 13, position = i / 13: the quick tier (13 scripts) sees every family once
    if i >= 39 {
        return None;
    }
    let pos = SWEEP_POSITIONS[((i / 13) % 3) as usize];
    let other = SWEEP_POSITIONS[((i / 13 + 1) % 3) as usize];
    let a = |s: &str| Action::send(s);
    let mut v = vec![a(pos)];
    match i % 13 {
        0 => v.extend([a("go infinite"), Action::DelaySteps(0), a("stop"), Action::WaitBestmove]),
        1 => v.extend([a("go infinite"), Action::DelaySteps(5), a("stop"), Action::WaitBestmove]),
        2 => v.extend([a("go depth 2"), Action::WaitBestmove, a("go depth 1"), Action::WaitBestmove]),
        3 => v.extend([a("go infinite"), Action::DelaySteps(200), a("stop"), Action::WaitBestmove, a("go depth 1"), Action::WaitBestmove]),
        4 => v.extend([a("go nodes 50"), Action::DelaySteps(10), a("stop"), Action::WaitBestmove, a("isready")]),
        5 => v.extend([a("go infinite"), a("isready"), a(other), Action::DelaySteps(30), a("stop"), Action::WaitBestmove, a("go depth 1"), Action::WaitBestmove]),
        6 => v.extend([a("stop"), a("go depth 1"), Action::WaitBestmove, a("stop")]),
        7 => v.extend([a("go movetime 1"), Action::WaitBestmove, a("go movetime 0"), Action::WaitBestmove]),
        8 => v.extend([a("go"), Action::DelaySteps(3), a("stop"), a("stop"), Action::WaitBestmove, a(other), a("go nodes 20"), Action::WaitBestmove]),
        // a search ended by the clock (the time-management branch), then go at once
        9 => v.extend([a("go wtime 40 btime 40"), Action::WaitBestmove, a("go depth 1"), Action::WaitBestmove]),
        // a go during a search is refused; the stop that follows must still work
        10 => v.extend([a("go infinite"), Action::DelaySteps(20), a("go depth 1"), Action::DelaySteps(5), a("stop"), Action::WaitBestmove, a("go depth 1"), Action::WaitBestmove]),
        // ucinewgame during a search resets the position, not the search bookkeeping
        11 => v.extend([a("go infinite"), Action::DelaySteps(20), a("ucinewgame"), Action::DelaySteps(5), a("stop"), Action::WaitBestmove, a("go nodes 30"), Action::WaitBestmove]),
        // several gos during one search are all refused, and the stop still reaches the search
        12 => v.extend([a("go infinite"), Action::DelaySteps(10), a("go depth 1"), a("go nodes 5"), Action::DelaySteps(5), a("go depth 1"), a("stop"), Action::WaitBestmove, a("go depth 1"), Action::WaitBestmove]),
        _ => return None,
    }
    v.push(a("isready"));
    v.push(a("quit"));
    Some(v)
}

pub fn sweep_scripts(thorough: bool) -> u64 {
    if thorough {
        39
    } else {
        SWEEP_QUICK
    }
}

fn sweep_case(index: u64, seed: u64) -> Vec<Plan> {
    use super::super::kernel::{Preempt, KERNEL, L, NL};
    let (si, k) = (index / SWEEP_SPAN, index % SWEEP_SPAN);
    let Some(script) = catalogue(si) else { return vec![] };
    let mut plan = Plan::new("C10", seed);
    plan.script = script;
    plan.cost_ns = 1000;
    plan.step_cap = 400_000;
    plan.tick_cap = 2_000_000;
    plan.policy = None; // explicit from the start
    // the undisturbed run tells us which yield points exist
    let quiet = KERNEL.run(&plan, false);
    let nthreads = quiet.threads.len();
    let mut points: Vec<Preempt> = vec![];
    for tid in 0..nthreads {
        for li in 0..NL {
            let Some(label) = L::from_u8(li as u8) else { continue };
            if label == L::End {
                continue;
            }
            let count = quiet.label_counts[tid][li];
            let mut nth = 1;
            while nth <= count {
                for to in 0..nthreads {
                    if to == tid {
                        continue;
                    }
                    for hold in [0u32, 5, 20_000] {
                        points.push(Preempt {
                            tid: tid as u8,
                            label,
                            nth: nth as u32,
                            to: to as u8,
                            hold,
                        });
                    }
                }
                nth += if label == L::FlagLoad && nth >= 24 { 37 } else { 1 };
            }
        }
    }
    plan.params = super::super::json::J::obj()
        .set("sweep_script", si)
        .set("sweep_points", points.len());
    if k == 0 {
        return vec![plan]; // the undisturbed schedule itself
    }
    match points.get((k - 1) as usize) {
        Some(p) => {
            plan.preempts = vec![*p];
            vec![plan]
        }
        None => vec![],
    }
}

pub fn generate(cx: &super::GenCtx) -> Vec<Plan> {
    let seed = cx.seed;
    if cx.index < sweep_scripts(cx.thorough) * SWEEP_SPAN {
        return sweep_case(cx.index, seed);
    }
    let mut rng = Rng::new(seed);
    let mut plan = Plan::new("C10", seed);
    let mut spec = gen::random_posspec(&mut rng);
    let mut s = vec![];
    if rng.chance(1, 3) {
        s.push(Action::send("ucinewgame"));
    }
    s.push(Action::send(spec.cmd.clone()));
    let searches = rng.range(1, 3);
    for k in 0..searches {
        match rng.below(10) {
            // go infinite ... stop
            0..=4 => {
                s.push(Action::send(if rng.chance(1, 4) { "go" } else { "go infinite" }));
                s.push(Action::DelaySteps(*rng.pick(DELAYS)));
                // other commands while the search runs: none of them may cost the stop its effect
                for _ in 0..*rng.pick(&[0u64, 0, 0, 1, 1, 2, 3, 4]) {
                    match rng.below(8) {
                        6 | 7 => {
                            // (weighted up: several refused gos in a row during one search)
                            let l = small_go(&mut rng, spec.dense);
                            s.push(Action::send(l.line(Some(&mut rng))));
                        }
                        0 | 1 => s.push(Action::send("isready")),
                        2 => {
                            // position while the search runs: must affect the NEXT search only
                            spec = gen::random_posspec(&mut rng);
                            s.push(Action::send(spec.cmd.clone()));
                        }
                        3 => {
                            // a go during a search is refused - and must leave the running
                            // search stoppable
                            let l = small_go(&mut rng, spec.dense);
                            s.push(Action::send(if rng.chance(1, 2) { "go infinite".to_string() } else { l.line(Some(&mut rng)) }));
                        }
                        4 => {
                            // ucinewgame resets the position, not the search bookkeeping
                            s.push(Action::send("ucinewgame"));
                            spec = gen::PosSpec {
                                cmd: "position startpos".into(),
                                game: vec![super::super::refmodel::Pos::start()],
                                dense: true,
                            };
                        }
                        _ => s.push(Action::send("setoption name Hash value 1")),
                    }
                    s.push(Action::DelaySteps(*rng.pick(DELAYS)));
                }
                s.push(Action::send("stop"));
                if rng.chance(1, 6) {
                    s.push(Action::send("stop")); // a second stop is harmless
                }
                s.push(Action::WaitBestmove);
            }
            // self-terminating go, maybe with a stop racing its natural end
            5..=8 => {
                let l = small_go(&mut rng, spec.dense);
                s.push(Action::send(l.line(Some(&mut rng))));
                if rng.chance(1, 2) {
                    s.push(Action::DelaySteps(*rng.pick(DELAYS)));
                    s.push(Action::send("stop"));
                }
                s.push(Action::WaitBestmove);
            }
            // stop with nothing running, then a normal search
            _ => {
                s.push(Action::WaitIdle);
                s.push(Action::send("stop"));
                let l = small_go(&mut rng, spec.dense);
                s.push(Action::send(l.line(Some(&mut rng))));
                s.push(Action::WaitBestmove);
            }
        }
        if k + 1 < searches {
            // what separates one search from the next go
            match rng.below(6) {
                0..=2 => {} // go immediately after bestmove
                3 => s.push(Action::WaitIdle),
                4 => s.push(Action::DelaySteps(*rng.pick(DELAYS))),
                _ => s.push(Action::send("isready")),
            }
            if rng.chance(1, 3) {
                spec = gen::random_posspec(&mut rng);
                s.push(Action::send(spec.cmd.clone()));
            }
        }
    }
    if rng.chance(1, 10) {
        // quit (or end of input) while a search is running must still end the session
        s.push(Action::send("go infinite"));
        s.push(Action::DelaySteps(*rng.pick(DELAYS)));
        if rng.chance(1, 3) {
            s.push(Action::Eof);
        }
    } else {
        s.push(Action::send("isready"));
    }
    s.push(Action::send("quit"));
    gen::decorate_all(&mut s, &mut rng, 1);
    plan.script = s;
    plan.step_cap = 1_500_000;
    plan.tick_cap = 6_000_000;
    gen::machine(&mut plan, &mut rng, 20_000, true);
    gen::schedule(&mut plan, &mut rng, 6_000);
    vec![plan]
}

pub fn check(plans: &[Plan], recs: &[RunRec]) -> Outcome {
    let (plan, rec) = (&plans[0], &recs[0]);
    let mut out = Outcome::default();
    common_stats(plan, rec, &mut out.stats);
    super::check_input_blocked(rec, &mut out);
    let h = history(rec);
    let views = go_views(&h);
    if plan.params.get("sweep_script").is_some() {
        out.stats.inc("sweep.cases");
        if plan.preempts.is_empty() {
            out.stats.inc("sweep.undisturbed_runs");
        } else if rec.preempts_applied > 0 {
            out.stats.inc("sweep.single_preemption_applied");
        } else {
            out.stats.inc("sweep.preemption_target_not_runnable");
        }
        out.stats.max("sweep.points_in_largest_script", plan.params.u("sweep_points"));
    }

    for (tid, msg) in &h.panics {
        if *tid == 0 {
            out.violations
                .push(Violation::new(&super::panic_kind("input_thread_panic", msg), msg.clone()));
        }
    }

    check_answers(&views, &mut out, "C10");

    for v in &views {
        let g = v.go;
        if g.tid.is_none() || g.refused {
            continue;
        }
        // phase of the stop relative to the search thread (reach table)
        if let Some(se) = g.stop_ev {
            let begun_before = rec.events[..se]
                .iter()
                .any(|e| e.tid == g.tid.unwrap() && e.k == EvK::Begin);
            let info_before = g.infos.iter().filter(|i| i.ev < se).count();
            let best_before = g.bestmoves.first().is_some_and(|b| b.ev < se);
            let phase = if best_before {
                "after_bestmove_before_thread_end"
            } else if !begun_before {
                "before_thread_begin"
            } else if info_before == 0 {
                "during_iteration_1"
            } else {
                "later"
            };
            out.stats.inc(&format!("reach.stop.{phase}"));
            if !best_before {
                // (2) the stop must take effect promptly, in the search thread's own work
                match g.bestmoves.first() {
                    Some(b) => {
                        let d = b.tticks.saturating_sub(g.stop_tticks);
                        out.stats.max("stop_to_bestmove_ticks", d);
                        if d > W_ALLOW_TICKS {
                            out.violations.push(Violation::new(
                                "stop_slow",
                                format!(
                                    "go #{} ({:?}): bestmove came {d} work ticks after stop (allowance {W_ALLOW_TICKS})",
                                    v.idx, v.text
                                ),
                            ));
                        }
                    }
                    None => {
                        let d = g.end_tticks.saturating_sub(g.stop_tticks);
                        if !g.thread_ended && d > W_ALLOW_TICKS {
                            out.violations.push(Violation::new(
                                "stop_lost",
                                format!(
                                    "go #{} ({:?}): stop stored {phase}, search kept running for {d} more work ticks without a bestmove (run ended by {:?})",
                                    v.idx, v.text, rec.end
                                ),
                            ));
                        } else if !g.thread_ended {
                            out.stats.inc("inconclusive.stop_pending_at_end");
                        }
                    }
                }
            }
        } else if g.bestmoves.is_empty() && !g.thread_ended {
            out.stats.inc("inconclusive.search_alive_at_end");
        }
        // phase of the go relative to the previous search thread
        if v.idx > 0 {
            if let Some(prev) = views[..v.idx].iter().rev().find(|p| p.go.tid.is_some()) {
                let ptid = prev.go.tid.unwrap();
                let ended_before = rec.events[..h.lines[g.line].ev]
                    .iter()
                    .any(|e| e.tid == ptid && e.k == EvK::End);
                out.stats.inc(if ended_before {
                    "reach.go.after_prev_thread_end"
                } else {
                    "reach.go.after_bestmove_before_prev_thread_end"
                });
            }
        }
    }
    // refused gos also have a phase
    for v in &views {
        if v.go.refused {
            out.stats.inc("reach.go.refused");
        }
    }

    // (4) isready is answered promptly even during a search
    for (i, l) in h.lines.iter().enumerate() {
        if l.text.split_whitespace().next() == Some("isready") {
            match l.outs.iter().find(|(t, _)| t == "readyok") {
                Some((_, y)) => {
                    let d = y.saturating_sub(l.t0_yields);
                    out.stats.max("readyok_latency_yields", d);
                    if d > I_ALLOW {
                        out.violations.push(Violation::new(
                            "readyok_slow",
                            format!("isready (line {i}) answered after {d} input-thread steps"),
                        ));
                    }
                }
                None => {
                    if !h.panics.iter().any(|(t, _)| *t == 0) && l.t0_yields_back.is_some() {
                        out.violations.push(Violation::new(
                            "no_readyok",
                            format!("isready (line {i}) was not answered"),
                        ));
                    }
                }
            }
        }
        // (no command is silently discarded) every delivered line is consumed promptly
        if let Some(back) = l.t0_yields_back {
            let d = back.saturating_sub(l.t0_yields);
            out.stats.max("line_handling_yields", d);
        }
    }

    // bestmoves that belong to no go
    if !h.orphan_bestmoves.is_empty() {
        out.violations.push(Violation::new(
            "orphan_bestmove",
            format!("{} bestmove line(s) not attributable to any go", h.orphan_bestmoves.len()),
        ));
    }
    if matches!(rec.end, EndReason::StepCap | EndReason::TickCap) {
        out.stats.inc("ended_by_cap");
    }
    if rec.end == EndReason::Deadlock {
        out.violations.push(Violation::new(
            "wedged",
            "nothing runnable before the session finished".to_string(),
        ));
    }
    out.nontrivial = !views.is_empty();
    out
}
