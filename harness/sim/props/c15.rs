//! C15 — no input line can kill or wedge the engine; quit and end-of-input end it.

use super::super::gen;
use super::super::kernel::{Action, EndReason, Plan, RunRec, Term};
use super::super::refmodel::{playout, Pos};
use super::super::rng::Rng;
use super::super::session::history;
use super::{common_stats, Outcome, Violation, I_ALLOW};

const KEYWORDS: &[&str] = &[
    "uci", "isready", "ucinewgame", "setoption", "position", "go", "stop", "ponderhit", "debug",
    "register", "name", "value", "startpos", "fen", "moves", "depth", "nodes", "movetime", "wtime",
    "btime", "winc", "binc", "infinite", "searchmoves", "ponder", "movestogo", "mate", "on", "off",
];

const FIXED_LINES: &[&str] = &[
    "go depth",
    "go nodes",
    "go movetime",
    "go wtime",
    "go btime",
    "go winc",
    "go binc",
    "go depth 2 nodes",
    "go wtime 100 btime",
    "go movestogo",
    "go mate",
    "go searchmoves",
    "go ponder",
    "go depth x",
    "go depth -1",
    "go nodes 99999999999999999999999999",
    "go movetime 1.5",
    "go foo",
    "setoption",
    "setoption name",
    "setoption name value",
    "setoption name Hash",
    "setoption name Hash value",
    "setoption name Hash value 16",
    "setoption value x name y",
    "setoption value 16",
    "setoption name value value",
    "setoption name name",
    "setoption Hash 16",
    "setoption name Move Overhead value 10",
    "setoption name  value 3",
    "position",
    "position fen",
    "position startpos moves",
    "position startpos foo",
    "position moves e2e4",
    "position startpos moves e2e5",
    "position startpos moves e2e4 e2e4",
    "position startpos moves 0000",
    "position startpos moves e2",
    "position startpos moves e2e4q",
    "position startpos moves E2E4",
    "position startpos moves i9i9",
    "position current",
    "",
    " ",
    "\t",
    "   \t  ",
    "stop",
    "stop stop",
    "ucinewgame extra",
    "isready now",
    "uci uci",
    "xyzzy",
    "Position startpos",
    "GO depth 1",
    "debug on",
    "ponderhit",
    "register later",
    "go infinite extra",
    "go depth 1 depth 1",
    "go wtime 0 btime 0 winc 0 binc 0",
    "go nodes 0",
    "go depth 0",
    "go movetime 0",
];

fn junk(rng: &mut Rng) -> String {
    match rng.below(21) {
        19 | 20 => {
            // a token of a familiar shape (move, square, number, keyword) with one character
            // replaced by, or one inserted of, a multi-byte one - at every byte offset
            let base: Vec<char> = rng
                .pick(&["e2e4", "e7e8q", "g1f3", "a1", "e2", "12", "100", "depth", "startpos", "moves", "e1g1"])
                .chars()
                .collect();
            let ch = *rng.pick(&['\u{e9}', '\u{265e}', '\u{1d11e}', '\u{df}']);
            let at = rng.usize_below(base.len() + 1);
            let mut t: Vec<char> = base.clone();
            if at < t.len() && rng.chance(2, 3) {
                t[at] = ch;
            } else {
                t.insert(at, ch);
            }
            t.into_iter().collect()
        }
        16 => "\u{0}".into(),
        17 => "\u{1b}[31mgo\u{1b}[0m".into(),
        18 => "\u{7f}\u{8}".into(),
        0 => "-1".into(),
        1 => "99999999999999999999999999999".into(),
        2 => "abc".into(),
        3 => "1e9".into(),
        4 => "0x10".into(),
        5 => "+5".into(),
        6 => "\u{265e}".into(),
        7 => "\u{ff}\u{e9}".into(),
        8 => "a".repeat(rng.range(100, 20_000) as usize),
        9 => rng.pick(KEYWORDS).to_string(),
        10 => "18446744073709551616".into(),
        11 => "340282366920938463463374607431768211456".into(),
        12 => "4294967296".into(),
        13 => "256".into(),
        14 => "-0".into(),
        _ => {
            let n = rng.range(1, 8) as usize;
            (0..n)
                .map(|_| (b'!' + rng.below(94) as u8) as char)
                .collect()
        }
    }
}

/// A well-formed command as a list of units (a FEN is one unit so it is never split).
fn wellformed(rng: &mut Rng) -> Vec<String> {
    let v = |xs: &[&str]| xs.iter().map(|s| (*s).to_string()).collect::<Vec<_>>();
    match rng.below(12) {
        0 => v(&["uci"]),
        1 => v(&["isready"]),
        2 => v(&["ucinewgame"]),
        3 => v(&["stop"]),
        4 => {
            let mut u = v(&["setoption", "name"]);
            u.push(rng.pick(&["Hash", "Threads", "Move", "Ponder"]).to_string());
            if rng.chance(1, 3) {
                u.push("Overhead".into());
            }
            if rng.chance(2, 3) {
                u.push("value".into());
                u.push(rng.below(64).to_string());
            }
            u
        }
        5..=7 => {
            let mut u = v(&["position"]);
            let start = if rng.chance(1, 2) {
                u.push("startpos".into());
                Pos::start()
            } else {
                let p = match rng.below(4) {
                    // positions in which the game is over (no legal move): a go there must not
                    // take the process down or wedge it
                    3 => Pos::from_fen(rng.pick(&[
                        "rnb1kbnr/pppp1ppp/8/4p3/6Pq/5P2/PPPPP2P/RNBQKBNR w KQkq - 1 3",
                        "7k/5Q2/6K1/8/8/8/8/8 b - - 0 1",
                        "k7/2Q5/8/8/8/8/8/7K b - - 0 1",
                        "3k4/3P4/3K4/8/8/8/8/8 b - - 0 1",
                        "6rk/5Npp/8/8/8/8/8/7K b - - 0 1",
                    ]))
                    .unwrap(),
                    0 => Pos::from_fen(rng.pick(gen::CURATED)).unwrap(),
                    1 => Pos::from_fen(rng.pick(gen::BENCH_FENS)).unwrap(),
                    _ => gen::sparse_position(rng),
                };
                u.push("fen".into());
                // a quarter of the FENs come without the two counters (valid four-field FEN)
                if rng.chance(1, 4) {
                    let mut q = p.clone();
                    q.hmc = 0;
                    q.fmn = 1;
                    let f = q.to_fen();
                    u.push(f.split_whitespace().take(4).collect::<Vec<_>>().join(" "));
                    q
                } else {
                    u.push(p.to_fen());
                    p
                }
            };
            if rng.chance(2, 3) {
                let (ms, _) = playout(&start, rng.below(12) as usize, rng, true);
                if !ms.is_empty() {
                    u.push("moves".into());
                    for m in ms {
                        u.push(m.uci());
                    }
                }
            }
            u
        }
        _ => {
            let mut u = v(&["go"]);
            let n = rng.range(1, 4);
            for _ in 0..n {
                let k = *rng.pick(&["depth", "nodes", "movetime", "wtime", "btime", "winc", "binc", "wtime", "btime", "movestogo", "mate"]);
                u.push(k.into());
                u.push(match k {
                    "depth" => rng.range(1, 3),
                    "nodes" => rng.range(1, 1500),
                    "movetime" => rng.below(5),
                    "movestogo" | "mate" => *rng.pick(&[0, 0, 1, 2, 40]),
                    _ => rng.below(100),
                }
                .to_string());
            }
            if rng.chance(1, 10) {
                u.push(rng.pick(&["infinite", "ponder", "searchmoves", "movestogo", "mate"]).to_string());
            }
            u
        }
    }
}

fn mutate(units: &mut Vec<String>, rng: &mut Rng) {
    let n = rng.range(1, 3);
    for _ in 0..n {
        if units.is_empty() {
            units.push(junk(rng));
            continue;
        }
        let i = rng.usize_below(units.len());
        match rng.below(7) {
            0 => {
                units.remove(i);
            }
            1 => {
                let u = units[i].clone();
                units.insert(i, u);
            }
            2 => {
                let j = rng.usize_below(units.len());
                units.swap(i, j);
            }
            3 => units[i] = junk(rng),
            4 => units.truncate(i),
            5 => units.push(junk(rng)),
            _ => units.insert(i, rng.pick(KEYWORDS).to_string()),
        }
    }
}

/// FEN arguments are assumed valid. In `position fen ...` the FEN is what stands between
/// `fen` and `moves` (or the end of the line). In scope: a valid FEN of four to six fields
/// (four-field FENs, with default counters, are valid FEN), or a truncated argument list too
/// short to be taken for a FEN at all. Anything else has an invalid FEN argument: regenerate.
pub fn fen_rule_ok(line: &str) -> bool {
    let t: Vec<&str> = line.split_whitespace().collect();
    if t.len() >= 2 && t[0] == "position" && t[1] == "fen" {
        let rest = &t[2..];
        let end = rest.iter().position(|x| *x == "moves").unwrap_or(rest.len());
        if end < 4 {
            return rest.len() < 6;
        }
        if end > 6 {
            return false;
        }
        let fen = rest[..end].join(" ");
        return match Pos::from_fen(&fen) {
            Ok(p) => {
                let full = p.to_fen();
                let want: Vec<&str> = full.split_whitespace().collect();
                // (the full-move number of a FEN starts at 1)
                p.is_sane() && p.fmn >= 1 && rest[..end] == want[..end]
            }
            Err(_) => false,
        };
    }
    true
}

fn random_line(rng: &mut Rng) -> String {
    loop {
        let line = match rng.below(10) {
            0..=2 => rng.pick(FIXED_LINES).to_string(),
            3..=4 => wellformed(rng).join(" "),
            _ => {
                let mut u = wellformed(rng);
                mutate(&mut u, rng);
                let sep = if rng.chance(1, 10) { "  " } else { " " };
                u.join(sep)
            }
        };
        let first = line.split_whitespace().next().unwrap_or("");
        if first == "quit" {
            continue;
        }
        if !fen_rule_ok(&line) || line.contains('\n') || line.contains('\r') {
            continue;
        }
        return line;
    }
}

/// How many sessions (the first indices of a batch) run on a cache grown to game size.
pub fn grown_cache_sessions(thorough: bool) -> u64 {
    if thorough {
        4
    } else {
        1
    }
}

/// "in any order within a session" includes late in a long one: the cache is never emptied
/// inside a session and passes a million entries in a real game. One long search grows it that
/// far, and then the commands whose handling looks at the cache (ucinewgame, setoption Hash /
/// Clear Hash, position, go) arrive, each followed by a probe.
fn grown_cache_session(seed: u64) -> Vec<Plan> {
    use super::super::kernel::Policy;
    let mut rng = Rng::new(seed ^ 0x6c0a);
    let mut plan = Plan::new("C15", seed);
    let mut s = vec![];
    s.push(Action::send(format!("position fen {}", rng.pick(gen::BENCH_FENS))));
    s.push(Action::send(format!("go nodes {}", rng.range(12_500_000, 15_000_000))));
    s.push(Action::WaitBestmove);
    s.push(Action::WaitIdle);
    s.push(Action::send("isready"));
    let mut tail = vec![
        "ucinewgame".to_string(),
        "setoption name Hash value 1".to_string(),
        "setoption name Clear Hash".to_string(),
        "position startpos moves e2e4".to_string(),
        "ucinewgame".to_string(),
        format!("setoption name Hash value {}", rng.range(1, 4096)),
    ];
    rng.shuffle(&mut tail);
    for l in tail {
        s.push(Action::send(l));
        s.push(Action::send("isready"));
    }
    s.push(Action::send("go depth 2"));
    s.push(Action::WaitBestmove);
    s.push(Action::WaitIdle);
    s.push(Action::send("isready"));
    s.push(Action::send("quit"));
    plan.script = s;
    plan.cost_ns = 1000;
    plan.policy = Some(Policy::Quiet);
    plan.step_cap = 2_000_000_000;
    plan.tick_cap = 4_000_000_000;
    plan.params = super::super::json::J::obj().set("grown_cache", true);
    vec![plan]
}

pub fn generate(cx: &super::GenCtx) -> Vec<Plan> {
    let (seed, thorough) = (cx.seed, cx.thorough);
    if cx.index < grown_cache_sessions(thorough) {
        return grown_cache_session(seed);
    }
    let mut rng = Rng::new(seed);
    let mut plan = Plan::new("C15", seed);
    let n = if thorough { rng.range(1, 40) } else { rng.range(1, 20) };
    let eof_at = if rng.chance(1, 3) { Some(rng.below(n + 1)) } else { None };
    let mut script = vec![];
    // One session in a thousand first fills the process-wide cache with a real search, so that
    // commands whose handling depends on how much is cached (setoption Hash, ucinewgame ...) meet
    // a cache that is not nearly empty.
    if rng.chance(1, 1000) {
        script.push(Action::send(format!("position fen {}", rng.pick(gen::BENCH_FENS))));
        script.push(Action::send(format!("go nodes {}", rng.range(450_000, 700_000))));
        script.push(Action::WaitBestmove);
        script.push(Action::send("isready"));
        for v in [1u64, 2, 16] {
            script.push(Action::send(format!("setoption name Hash value {v}")));
            script.push(Action::send("isready"));
        }
    }
    let mut last_position: Option<Vec<String>> = None;
    for i in 0..n {
        if eof_at == Some(i) {
            break;
        }
        let mut line = random_line(&mut rng);
        // GUI-like related position commands: the previous one extended, cut back or repeated
        if let Some(prev) = &last_position {
            if rng.chance(1, 6) {
                let mi = prev.iter().position(|t| t == "moves");
                let mut t = prev.clone();
                match (mi, rng.below(3)) {
                    (Some(m), 0) => t.truncate((m + 1 + rng.usize_below(t.len() - m)).min(t.len())),
                    (Some(m), 1) => t.truncate(m),
                    _ => {}
                }
                if t.last().map(String::as_str) == Some("moves") {
                    t.pop();
                }
                line = t.join(" ");
            }
        }
        let toks: Vec<String> = line.split_whitespace().map(str::to_string).collect();
        if toks.first().map(String::as_str) == Some("position") && fen_rule_ok(&line) {
            last_position = Some(toks);
        }
        script.push(Action::send(line));
        if rng.chance(1, 8) {
            script.push(Action::DelaySteps(rng.below(400)));
        }
        // the line before end-of-input is not always followed by a probe
        let last_before_eof = eof_at == Some(i + 1) || (eof_at.is_some() && i + 1 == n);
        if !(last_before_eof && rng.chance(1, 2)) {
            script.push(Action::send("isready"));
        }
    }
    gen::decorate_all(&mut script, &mut rng, 2);
    if eof_at.is_some() {
        // sometimes the last line before EOF has no newline
        if rng.chance(1, 2) {
            if let Some(Action::Send { term, .. }) = script.last_mut() {
                *term = Term::None;
            }
        }
        script.push(Action::Eof);
    } else {
        script.push(Action::send(if rng.chance(1, 6) { "quit now" } else { "quit" }));
    }
    plan.script = script;
    plan.step_cap = 4_000_000;
    plan.tick_cap = 12_000_000;
    gen::machine(&mut plan, &mut rng, 5_000, false);
    gen::schedule(&mut plan, &mut rng, 2_000);
    vec![plan]
}

pub fn check(plans: &[Plan], recs: &[RunRec]) -> Outcome {
    let (plan, rec) = (&plans[0], &recs[0]);
    let mut out = Outcome::default();
    common_stats(plan, rec, &mut out.stats);
    super::check_input_blocked(rec, &mut out);
    let h = history(rec);
    if plan.params.b("grown_cache") {
        out.stats.inc("reach.session_on_grown_cache");
        out.stats.max("cache_entries_in_grown_cache_session", super::super::kernel::tt_len() as u64);
    }
    let s = &mut out.stats;

    // 1. the input thread must never die
    for (tid, msg) in &h.panics {
        if *tid == 0 {
            let last = h.lines.last().map_or("", |l| l.text.as_str());
            let shown: String = last.chars().take(120).collect();
            out.violations.push(Violation::new(
                &super::panic_kind("input_thread_panic", msg),
                format!("{msg} while handling line {shown:?}"),
            ));
        }
    }
    let t0_dead = h.panics.iter().any(|(t, _)| *t == 0);

    // 2. every isready probe is answered promptly
    let mut quit_seen = false;
    for (i, l) in h.lines.iter().enumerate() {
        let toks: Vec<&str> = l.text.split_whitespace().collect();
        if toks.first() == Some(&"quit") {
            quit_seen = true;
            s.inc("reach.quit");
            continue;
        }
        if toks.first() == Some(&"isready") {
            s.inc("probes");
            let answered = l.outs.iter().find(|(t, _)| t == "readyok");
            match answered {
                Some((_, y)) => {
                    let d = y.saturating_sub(l.t0_yields);
                    s.max("readyok_latency_yields", d);
                    if d > I_ALLOW {
                        out.violations.push(Violation::new(
                            "readyok_slow",
                            format!("probe #{i}: readyok after {d} input-thread steps"),
                        ));
                    }
                }
                None => {
                    let is_last_and_dead = t0_dead && i + 1 == h.lines.len();
                    // only a probe the engine has finished with can be called unanswered (a run
                    // cut by a cap may end between delivery and answer)
                    if !is_last_and_dead && !(t0_dead) && l.t0_yields_back.is_some() {
                        out.violations.push(Violation::new(
                            "no_readyok",
                            format!("probe #{i} (after {:?}) was not answered", h.lines.get(i.wrapping_sub(1)).map(|p| p.text.chars().take(80).collect::<String>())),
                        ));
                    }
                }
            }
        } else {
            s.inc("lines_junk_or_command");
            if !l.errs.is_empty() {
                s.inc("reach.line_rejected_with_diagnostic");
            }
            if l.spawned.is_some() {
                s.inc("reach.search_started");
            }
        }
        if let Some(back) = l.t0_yields_back {
            let d = back.saturating_sub(l.t0_yields);
            s.max("line_handling_yields", d);
            if d > I_ALLOW + 16 {
                out.violations.push(Violation::new(
                    "line_handling_slow",
                    format!("line #{i} took {d} input-thread steps"),
                ));
            }
        }
    }

    // 3. termination
    match rec.end {
        EndReason::InputEnded => {
            if !t0_dead {
                if quit_seen {
                    s.inc("reach.exit_on_quit");
                } else if h.eof_seen {
                    s.inc("reach.exit_on_eof");
                    if let (Some(a), Some(b)) = (h.eof_yields, h.input_returned_yields) {
                        s.max("eof_exit_latency_yields", b.saturating_sub(a));
                    }
                } else {
                    out.violations.push(Violation::new(
                        "exit_without_quit",
                        "uci_loop returned although neither quit nor end-of-input was seen",
                    ));
                }
            }
        }
        EndReason::EofSpin => {
            out.violations.push(Violation::new(
                "eof_spin",
                format!(
                    "input closed, engine kept reading: {} reads at end-of-input without returning",
                    rec.eof_reads
                ),
            ));
        }
        EndReason::InputBlocked => {} // reported by check_input_blocked
        EndReason::ThreadLimit => s.inc("inconclusive.thread_limit"),
        EndReason::ExitOverdue => {} // reported by check_input_blocked
        EndReason::StepCap | EndReason::TickCap | EndReason::Deadlock => {
            // Only the input thread's own behaviour counts: if it burned the budget
            // itself (or nothing can run) it is wedged; if search threads used it up
            // the run is merely inconclusive.
            let t0_yields = rec.threads.first().map_or(0, |t| t.yields);
            if rec.end == EndReason::Deadlock || t0_yields > 20_000 {
                out.violations.push(Violation::new(
                    "wedged",
                    format!(
                        "run ended by {:?} before the session finished (input thread took {t0_yields} steps)",
                        rec.end
                    ),
                ));
            } else {
                s.inc("inconclusive.cap");
            }
        }
    }
    out.nontrivial = h.lines.len() >= 2;
    out
}
