//! C08 — the UCI position command sets up exactly the described game, or nothing.

use super::super::gen::{self, moves_str};
use super::super::kernel::{Action, EndReason, Plan, RunRec};
use super::super::refmodel::{playout, Mv, Pos, B, BLACK, EMPTY, K, N, P, Q, R};
use super::super::rng::Rng;
use super::super::session::{history, interpret_position, PosCmd, RefSession};
use super::{common_stats, panic_kind, Outcome, Violation};
use crate::board::piece::{Color, Kind};
use crate::board::ply::castling::{CastlingKind, CastlingStatus};
use crate::board::square::Square;
use crate::board::Board;

fn kind_code(k: Kind) -> u8 {
    let (t, c) = match k {
        Kind::Pawn(c) => (P, c),
        Kind::Knight(c) => (N, c),
        Kind::Bishop(c) => (B, c),
        Kind::Rook(c) => (R, c),
        Kind::Queen(c) => (Q, c),
        Kind::King(c) => (K, c),
    };
    t | if c == Color::Black { BLACK } else { 0 }
}

/// Compare the engine's session position with the reference game (last = current).
pub fn compare_board(board: &Board, game: &[Pos]) -> Result<(), String> {
    let pos = game.last().unwrap();
    for s in 0..64u8 {
        let got = board
            .get_piece(Square {
                rank: s >> 3,
                file: s & 7,
            })
            .map_or(EMPTY, kind_code);
        if got != pos.sq[s as usize] {
            return Err(format!(
                "square {}: engine has {}, rules say {}",
                super::super::refmodel::sq_name(s),
                if got == EMPTY { '-' } else { super::super::refmodel::piece_char(got) },
                if pos.sq[s as usize] == EMPTY { '-' } else { super::super::refmodel::piece_char(pos.sq[s as usize]) }
            ));
        }
    }
    if (board.current_turn == Color::White) != pos.white {
        return Err("side to move differs".into());
    }
    let kinds = [
        CastlingKind::WhiteKingside,
        CastlingKind::WhiteQueenside,
        CastlingKind::BlackKingside,
        CastlingKind::BlackQueenside,
    ];
    for (i, k) in kinds.iter().enumerate() {
        let got = board.castle_status(*k) == CastlingStatus::Available;
        if got != pos.castle[i] {
            return Err(format!("castling right {} differs: engine {got}, rules {}", ["K", "Q", "k", "q"][i], pos.castle[i]));
        }
    }
    if board.verif_en_passant_file() != pos.ep {
        return Err(format!(
            "en-passant file differs: engine {:?}, rules {:?}",
            board.verif_en_passant_file(),
            pos.ep
        ));
    }
    if u32::from(board.get_halfmove_clock()) != pos.hmc {
        return Err(format!("half-move clock differs: engine {}, rules {}", board.get_halfmove_clock(), pos.hmc));
    }
    if u32::from(board.fullmove_counter) != pos.fmn {
        return Err(format!("full-move number differs: engine {}, rules {}", board.fullmove_counter, pos.fmn));
    }
    // repetition record: every earlier position of the game is remembered; the current one
    // is "reached" iff it occurred before. Keys come from the engine's own FEN loader.
    let cur_key = pos.rep_key();
    let mut occurred_before = false;
    for (i, p) in game[..game.len() - 1].iter().enumerate() {
        let key = Board::from_fen(&p.to_fen()).zkey;
        if !board.position_reached(key) {
            return Err(format!("earlier position #{i} of the game ({}) is not in the repetition record", p.to_fen()));
        }
        if p.rep_key() == cur_key {
            occurred_before = true;
        }
    }
    let ck = Board::from_fen(&pos.to_fen()).zkey;
    if ck != board.zkey {
        return Err(format!("position key differs from the key of the same position loaded from FEN {}", pos.to_fen()));
    }
    if board.position_reached(ck) != occurred_before {
        return Err(format!(
            "repetition record says current position reached before = {}, rules say {}",
            board.position_reached(ck),
            occurred_before
        ));
    }
    Ok(())
}

/// Strings that must be refused as a move in `pos`, each with a label.
pub fn illegal_candidates(pos: &Pos, rng: &mut Rng) -> Vec<(String, &'static str)> {
    let mut out: Vec<(String, &'static str)> = vec![];
    let legal: Vec<String> = pos.legal_moves().iter().map(Mv::uci).collect();
    let mut push = |s: String, what: &'static str, out: &mut Vec<(String, &'static str)>| {
        if !legal.contains(&s) && !s.is_empty() && !s.contains(char::is_whitespace) {
            out.push((s, what));
        }
    };
    for m in pos.illegal_pseudo_moves() {
        push(m.uci(), "leaves_own_king_in_check", &mut out);
    }
    // the other side's moves
    let mut flipped = pos.clone();
    flipped.white = !flipped.white;
    flipped.ep = None;
    if flipped.is_sane() {
        for m in flipped.legal_moves().into_iter().take(6) {
            push(m.uci(), "wrong_side", &mut out);
        }
    }
    for m in pos.legal_moves() {
        let u = m.uci();
        if m.promo != 0 {
            push(u[..4].to_string(), "promotion_without_suffix", &mut out);
            push(format!("{}k", &u[..4]), "promotion_to_king", &mut out);
            push(format!("{}p", &u[..4]), "promotion_to_pawn", &mut out);
            push(format!("{}Q", &u[..4]), "promotion_suffix_uppercase", &mut out);
        } else {
            push(format!("{u}q"), "suffix_on_non_promotion", &mut out);
        }
        push(u.to_uppercase(), "uppercase", &mut out);
        push(u[..3].to_string(), "truncated", &mut out);
        push(format!("{}{}", &u[2..4], &u[..2]), "reversed", &mut out);
        if m.castle {
            let rook_sq = match m.to {
                6 => "e1h1",
                2 => "e1a1",
                62 => "e8h8",
                _ => "e8a8",
            };
            push(rook_sq.to_string(), "castling_as_king_takes_rook", &mut out);
            push(if matches!(m.to, 6 | 62) { "O-O" } else { "O-O-O" }.to_string(), "castling_san", &mut out);
        }
        if out.len() > 60 {
            break;
        }
    }
    // geometrically possible but blocked / empty-square / off-board
    for _ in 0..6 {
        let a = rng.below(64) as u8;
        let b = rng.below(64) as u8;
        push(
            format!("{}{}", super::super::refmodel::sq_name(a), super::super::refmodel::sq_name(b)),
            "random_square_pair",
            &mut out,
        );
    }
    for s in ["0000", "i9i9", "e2e9", "a0a1", "xxxx", "e2-e4", "e2e4e5", "1234", "\u{265e}f3", "--", "e7e8qq"] {
        push(s.to_string(), "junk", &mut out);
    }
    out
}

fn fen_variants(p: &Pos, rng: &mut Rng) -> Pos {
    // clocks across the stated range
    let mut q = p.clone();
    q.hmc = match rng.below(4) {
        0 => 0,
        1 => rng.below(150) as u32,
        2 => rng.below(20) as u32,
        _ => p.hmc,
    };
    q.fmn = match rng.below(4) {
        0 => 1,
        1 => rng.range(1, 6000) as u32,
        _ => p.fmn.max(1),
    };
    // any subset of the castling flags the placement allows is a valid FEN
    for i in 0..4 {
        if q.castle[i] && rng.chance(1, 4) {
            q.castle[i] = false;
        }
    }
    q
}

fn start_position(rng: &mut Rng) -> (Pos, bool) {
    match rng.below(10) {
        0..=3 => (Pos::start(), true),
        4..=5 => (fen_variants(&Pos::from_fen(rng.pick(gen::CURATED)).unwrap(), rng), false),
        6..=7 => (fen_variants(&Pos::from_fen(rng.pick(gen::BENCH_FENS)).unwrap(), rng), false),
        8 => {
            // a position reached by play, given as FEN (castling flags / ep as they arose)
            let (_, ps) = playout(&Pos::start(), rng.below(60) as usize, rng, true);
            (fen_variants(ps.last().unwrap(), rng), false)
        }
        _ => (gen::sparse_position(rng), false),
    }
}

fn position_cmd(start: &Pos, from_startpos: bool, moves: &[String], rng: &mut Rng) -> String {
    let head = if from_startpos && rng.chance(4, 5) {
        "position startpos".to_string()
    } else if start.hmc == 0 && start.fmn == 1 && rng.chance(1, 2) {
        // default counters may be left out (a valid four-field FEN)
        let f = start.to_fen();
        format!("position fen {}", f.split_whitespace().take(4).collect::<Vec<_>>().join(" "))
    } else {
        format!("position fen {}", start.to_fen())
    };
    if moves.is_empty() {
        // the keyword with an empty list is a game of zero moves
        if rng.chance(1, 6) {
            format!("{head} moves")
        } else {
            head
        }
    } else {
        format!("{head} moves {}", moves.join(" "))
    }
}

/// "independent of anything sent earlier in the session" includes earlier SEARCHES: the game is
/// searched first (so that whatever the engine caches about the positions near it is filled in),
/// and then lines of one and two plies into the searched tree are sent, each ending in a move
/// that is not legal there - every pseudo-legal move that leaves the own king in check, in the
/// positions where the side to move is in check or has a pinned piece - or in a legal control.
fn searched_then_corrupted(cx: &super::GenCtx) -> Vec<Plan> {
    let seed = cx.seed;
    let mut rng = Rng::new(seed ^ 0x5ea2c4ed);
    let mut plan = Plan::new("C08", seed);
    let mut s: Vec<Action> = vec![];
    let (start, from_startpos) = start_position(&mut rng);
    let plies = match rng.below(4) {
        0 => rng.below(8),
        _ => rng.range(8, 70),
    } as usize;
    let (ms, ps) = playout(&start, plies, &mut rng, true);
    let base: Vec<String> = ms.iter().map(Mv::uci).collect();
    let root = ps.last().unwrap().clone();
    s.push(Action::send(position_cmd(&start, from_startpos, &base, &mut rng)));
    let depth = if root.piece_count() > 16 { rng.range(2, 4) } else { rng.range(2, 5) };
    if rng.chance(1, 4) {
        s.push(Action::send("go infinite"));
        s.push(Action::DelaySteps(rng.range(50, 3000)));
        s.push(Action::send("stop"));
    } else {
        s.push(Action::send(format!("go depth {depth}")));
    }
    s.push(Action::WaitBestmove);
    s.push(Action::WaitIdle);
    // lines into the tree, those ending in a position with illegal pseudo-legal moves first
    let mut lines: Vec<(Vec<String>, Pos, usize)> = vec![];
    for m1 in root.legal_moves() {
        let p1 = root.make(m1);
        let n1 = p1.illegal_pseudo_moves().len();
        lines.push((vec![m1.uci()], p1.clone(), n1 + if p1.in_check(p1.white) { 100 } else { 0 }));
        if lines.len() > 600 {
            continue;
        }
        for m2 in p1.legal_moves() {
            let p2 = p1.make(m2);
            if p2.in_check(p2.white) {
                let n2 = p2.illegal_pseudo_moves().len();
                lines.push((vec![m1.uci(), m2.uci()], p2, n2 + 100));
            }
        }
    }
    rng.shuffle(&mut lines);
    lines.sort_by_key(|l| std::cmp::Reverse(l.2.min(101)));
    let mut sent = 0usize;
    let mut illegal_sent = 0u64;
    let mut controls = 0;
    for (l, p, w) in lines.into_iter().take(40) {
        if w == 0 {
            controls += 1;
            if controls > 2 {
                continue;
            }
        }
        let mut tails: Vec<String> = p.illegal_pseudo_moves().iter().map(Mv::uci).collect();
        illegal_sent += tails.len().min(40) as u64;
        tails.truncate(40);
        let legal: Vec<String> = p.legal_moves().iter().map(Mv::uci).collect();
        for _ in 0..2 {
            if !legal.is_empty() {
                tails.push(rng.pick(&legal).clone());
            }
        }
        for t in tails {
            let mut m2 = base.clone();
            m2.extend(l.iter().cloned());
            m2.push(t);
            s.push(Action::send(position_cmd(&start, from_startpos, &m2, &mut rng)));
            sent += 1;
        }
        if sent > 260 {
            break;
        }
    }
    s.push(Action::send("isready"));
    s.push(Action::send("quit"));
    gen::decorate_all(&mut s, &mut rng, 2);
    plan.script = s;
    plan.step_cap = 4_000_000;
    plan.tick_cap = 8_000_000;
    gen::machine(&mut plan, &mut rng, 10_000, false);
    gen::schedule(&mut plan, &mut rng, 3_000);
    plan.params = super::super::json::J::obj()
        .set("related_position_commands", 0u64)
        .set("searched_then_corrupted", 1u64)
        .set("illegal_tails_after_search", illegal_sent);
    vec![plan]
}

/// "along any game" includes games far longer than a playout of forty moves: 260 to 1 700 plies
/// (a line of up to 8.5 kB, more than a default `BufReader` holds), so that whatever an engine
/// keeps per ply of the game - move history, remembered positions, counters, the line itself -
/// is taken past 256, 512 and 1 024 entries and past 8 192 bytes. The game is sent whole,
/// extended, taken back, repeated, and with one move - the last, or one in the middle -
/// replaced by a move that is not legal there.
fn long_game_session(cx: &super::GenCtx) -> Vec<Plan> {
    let seed = cx.seed;
    let mut rng = Rng::new(seed ^ 0x10_96a3e);
    let mut plan = Plan::new("C08", seed);
    let mut s: Vec<Action> = vec![];
    let (start, from_startpos) = if rng.chance(2, 3) { (Pos::start(), true) } else { start_position(&mut rng) };
    let plies = match rng.below(5) {
        0 => rng.range(250, 270),
        1 => rng.range(505, 530),
        2 => rng.range(1020, 1040),
        3 => rng.range(1640, 1700),
        _ => rng.range(260, 1700),
    } as usize;
    let biased = rng.chance(1, 2);
    let (ms, ps) = playout(&start, plies, &mut rng, biased);
    let base: Vec<String> = ms.iter().map(Mv::uci).collect();
    let n = base.len();
    if rng.chance(1, 3) {
        s.push(Action::send("ucinewgame"));
    }
    let mut variants: Vec<Vec<String>> = vec![base.clone()];
    let last = ps.last().unwrap();
    if let Some(m) = last.legal_moves().first() {
        let mut v = base.clone();
        v.push(m.uci());
        variants.push(v);
    }
    if n > 2 {
        variants.push(base[..n - 1].to_vec());
        variants.push(base[..rng.usize_below(n)].to_vec());
        // one move replaced: the last one, and one anywhere
        for at in [n - 1, rng.usize_below(n)] {
            let cands = illegal_candidates(&ps[at], &mut rng);
            if !cands.is_empty() {
                let mut v = base.clone();
                v[at] = rng.pick(&cands).0.clone();
                variants.push(v);
            }
        }
    }
    variants.push(base.clone());
    let first = variants.remove(0);
    rng.shuffle(&mut variants);
    variants.truncate(rng.range(2, 6) as usize);
    variants.insert(0, first);
    for v in variants {
        s.push(Action::send(position_cmd(&start, from_startpos, &v, &mut rng)));
    }
    s.push(Action::send("isready"));
    s.push(Action::send("quit"));
    gen::decorate_all(&mut s, &mut rng, 2);
    plan.script = s;
    plan.step_cap = 4_000_000;
    plan.tick_cap = 16_000_000;
    gen::machine(&mut plan, &mut rng, 10_000, false);
    gen::schedule(&mut plan, &mut rng, 3_000);
    plan.params = super::super::json::J::obj()
        .set("related_position_commands", 0u64)
        .set("long_game_plies", n as u64);
    vec![plan]
}

pub fn generate(cx: &super::GenCtx) -> Vec<Plan> {
    if cx.index % 64 == 37 {
        return long_game_session(cx);
    }
    if cx.index % 16 == 5 {
        return searched_then_corrupted(cx);
    }
    let seed = cx.seed;
    let mut rng = Rng::new(seed);
    let mut plan = Plan::new("C08", seed);
    let mut s: Vec<Action> = vec![];
    let n = rng.range(3, 25);
    let sweep = rng.chance(1, 5);
    let mut searching = false;
    let mut last_game: Option<(Pos, bool, Vec<Mv>, Vec<Pos>)> = None;
    let mut out_related = 0u64;
    let mut i = 0;
    while i < n {
        i += 1;
        match rng.below(20) {
            0 => s.push(Action::send("ucinewgame")),
            1 => s.push(Action::send("isready")),
            2 if !searching => {
                // start a search so that later position commands arrive while it runs
                s.push(Action::send("go infinite"));
                s.push(Action::DelaySteps(rng.below(300)));
                searching = true;
            }
            3 if searching => {
                s.push(Action::send("stop"));
                s.push(Action::WaitBestmove);
                s.push(Action::WaitIdle);
                searching = false;
            }
            _ => {
                // A third of the position commands are RELATED to the previous one, the way a
                // GUI's are: the same game extended, taken back, repeated, or varied at the end.
                let related = last_game.is_some() && rng.chance(1, 3);
                let (start, from_startpos, ms, ps) = if related {
                    let (st, fs, pm, pp): (Pos, bool, Vec<Mv>, Vec<Pos>) = last_game.clone().unwrap();
                    let keep = match rng.below(5) {
                        0 => pm.len(),                                  // same again / extend
                        1 => pm.len().saturating_sub(1),                // take back one
                        2 => pm.len().saturating_sub(2),                // take back two
                        3 => rng.usize_below(pm.len() + 1),             // back to anywhere
                        _ => 0,                                         // back to the start
                    };
                    let mut ms: Vec<Mv> = pm[..keep].to_vec();
                    let mut ps: Vec<Pos> = pp[..=keep].to_vec();
                    let extra = match rng.below(4) {
                        0 => 0,
                        1 => 1,
                        2 => 2,
                        _ => rng.below(6) as usize,
                    };
                    let (em, ep) = playout(ps.last().unwrap(), extra, &mut rng, true);
                    ms.extend(em);
                    ps.extend(ep.into_iter().skip(1));
                    out_related += 1;
                    (st, fs, ms, ps)
                } else {
                    let (mut start, from_startpos) = start_position(&mut rng);
                    if !from_startpos && rng.chance(1, 5) {
                        start.hmc = 0;
                        start.fmn = 1;
                    }
                    let plies = match rng.below(6) {
                        0 => 0,
                        1 => rng.below(4),
                        2 => rng.below(160),
                        _ => rng.below(40),
                    } as usize;
                    let (ms, ps) = playout(&start, plies, &mut rng, true);
                    (start, from_startpos, ms, ps)
                };
                last_game = Some((start.clone(), from_startpos, ms.clone(), ps.clone()));
                let mut moves: Vec<String> = ms.iter().map(Mv::uci).collect();
                // corruption: exactly one move replaced by something that is not legal there
                if !moves.is_empty() && rng.chance(1, 3) {
                    let at = match rng.below(3) {
                        0 => 0,
                        1 => moves.len() - 1,
                        _ => rng.usize_below(moves.len()),
                    };
                    let cands = illegal_candidates(&ps[at], &mut rng);
                    if !cands.is_empty() {
                        let (c, _) = rng.pick(&cands).clone();
                        moves[at] = c;
                    }
                }
                s.push(Action::send(position_cmd(&start, from_startpos, &moves, &mut rng)));
                if searching && rng.chance(1, 2) {
                    s.push(Action::DelaySteps(rng.below(200)));
                }
                if sweep && rng.chance(1, 3) && i < n {
                    // acceptance sweep at the end of this game: every legal move and a set of
                    // illegal candidates, each as the last move of the list
                    let base: Vec<String> = ms.iter().map(Mv::uci).collect();
                    let last = ps.last().unwrap();
                    let mut cands: Vec<String> = last.legal_moves().iter().map(Mv::uci).collect();
                    for (c, _) in illegal_candidates(last, &mut rng).into_iter().take(24) {
                        cands.push(c);
                    }
                    rng.shuffle(&mut cands);
                    for c in cands.into_iter().take(40) {
                        let mut m2 = base.clone();
                        m2.push(c);
                        s.push(Action::send(position_cmd(&start, from_startpos, &m2, &mut rng)));
                    }
                }
            }
        }
    }
    if searching {
        s.push(Action::send("stop"));
        s.push(Action::WaitBestmove);
    }
    s.push(Action::send("isready"));
    s.push(Action::send("quit"));
    gen::decorate_all(&mut s, &mut rng, 2);
    plan.script = s;
    plan.step_cap = 2_000_000;
    plan.tick_cap = 8_000_000;
    gen::machine(&mut plan, &mut rng, 10_000, false);
    gen::schedule(&mut plan, &mut rng, 3_000);
    let _ = moves_str;
    plan.params = super::super::json::J::obj().set("related_position_commands", out_related);
    vec![plan]
}

pub fn check(plans: &[Plan], recs: &[RunRec]) -> Outcome {
    let (plan, rec) = (&plans[0], &recs[0]);
    let mut out = Outcome::default();
    common_stats(plan, rec, &mut out.stats);
    super::check_input_blocked(rec, &mut out);
    let h = history(rec);
    for (tid, msg) in &h.panics {
        if *tid == 0 {
            let last = h.lines.last().map_or(String::new(), |l| l.text.chars().take(200).collect());
            out.violations.push(Violation::new(
                &panic_kind("input_thread_panic", msg),
                format!("{msg} while handling {last:?}"),
            ));
        }
    }
    let mut rs = RefSession::new();
    let mut checked = 0;
    let mut search_alive = false;
    for (li, l) in h.lines.iter().enumerate() {
        let toks: Vec<&str> = l.text.split_whitespace().collect();
        if l.spawned.is_some() {
            search_alive = true;
        }
        if toks.first() == Some(&"stop") {
            search_alive = false;
        }
        let before = rs.clone();
        let cmd = rs.apply(&l.text);
        let (Some(bb), Some(ba)) = (l.board_before, l.board_after) else {
            continue; // the engine never came back from this line (reported elsewhere)
        };
        let (bb, ba) = (&rec.boards[bb], &rec.boards[ba]);
        match cmd {
            Some(PosCmd::Accept { ref moves, ref positions, .. }) => {
                checked += 1;
                out.stats.inc("position_commands_accepted_by_rules");
                if search_alive {
                    out.stats.inc("reach.position_while_search_alive");
                }
                for m in moves {
                    if m.castle {
                        out.stats.inc(match m.to {
                            6 => "reach.castle_K",
                            2 => "reach.castle_Q",
                            62 => "reach.castle_k",
                            _ => "reach.castle_q",
                        });
                    }
                    if m.ep {
                        out.stats.inc("reach.en_passant_capture");
                    }
                    match m.promo {
                        Q => out.stats.inc("reach.promote_q"),
                        R => out.stats.inc("reach.promote_r"),
                        B => out.stats.inc("reach.promote_b"),
                        N => out.stats.inc("reach.promote_n"),
                        _ => {}
                    }
                    if m.capture && matches!(m.to, 0 | 7 | 56 | 63) {
                        out.stats.inc("reach.capture_on_rook_home_square");
                    }
                }
                let cur = positions.last().unwrap().rep_key();
                if positions[..positions.len() - 1].iter().any(|p| p.rep_key() == cur) {
                    out.stats.inc("reach.repeated_position_in_move_list");
                }
                if l.errs.iter().any(|e| e.contains("Invalid move") || e.contains("Failed")) {
                    out.violations.push(Violation::new(
                        "legal_move_refused",
                        format!("line {li} {:?}: every move is legal but the engine said {:?}", short(&l.text), l.errs),
                    ));
                } else if let Err(e) = compare_board(ba, positions) {
                    out.violations.push(Violation::new(
                        "wrong_position",
                        format!("after line {li} {:?}: {e}", short(&l.text)),
                    ));
                }
            }
            Some(PosCmd::RejectMove { index, ref text }) => {
                checked += 1;
                out.stats.inc("position_commands_refused_by_rules");
                let nmoves = toks.iter().position(|t| *t == "moves").map_or(0, |m| toks.len() - m - 1);
                out.stats.inc(if index == 0 {
                    "reach.corruption_at_first_move"
                } else if index + 1 == nmoves {
                    "reach.corruption_at_last_move"
                } else {
                    "reach.corruption_in_the_middle"
                });
                let diagnosed = l.errs.iter().any(|e| e.contains("Invalid move"));
                if ba != bb {
                    // what is in force now? describe it against both candidates
                    let as_new = compare_board(ba, &before.game).err();
                    out.violations.push(Violation::new(
                        "illegal_move_not_refused_as_a_whole",
                        format!(
                            "line {li} {:?}: move #{} {text:?} is not legal there, but the session position changed (diagnostic printed: {diagnosed}; vs previous position: {:?})",
                            short(&l.text),
                            index + 1,
                            as_new
                        ),
                    ));
                } else if before.known {
                    // (whether and how the refusal is worded on stderr is not part of the
                    // property: counted, not judged)
                    if !diagnosed {
                        out.stats.inc("refused_without_the_usual_diagnostic");
                    }
                    if let Err(e) = compare_board(ba, &before.game) {
                        out.violations.push(Violation::new(
                            "previous_position_damaged",
                            format!("after refused line {li} {:?}: {e}", short(&l.text)),
                        ));
                    }
                }
            }
            Some(PosCmd::Malformed) => out.stats.inc("position_commands_malformed_skipped"),
            None => {
                // any other command: ucinewgame resets, everything else leaves the position alone
                if toks.first() == Some(&"ucinewgame") && toks.len() == 1 {
                    checked += 1;
                    if let Err(e) = compare_board(ba, &rs.game) {
                        out.violations.push(Violation::new(
                            "ucinewgame_wrong_position",
                            format!("after line {li}: {e}"),
                        ));
                    }
                } else if rs.known && !toks.is_empty() && toks[0] != "quit" {
                    if ba != bb {
                        out.violations.push(Violation::new(
                            "position_changed_by_other_command",
                            format!("line {li} {:?} changed the session position", short(&l.text)),
                        ));
                    }
                }
            }
        }
    }
    out.stats.add("position_checks", checked);
    out.stats.add("reach.related_position_commands", plans[0].params.u("related_position_commands"));
    out.stats.add("reach.illegal_tails_after_search", plans[0].params.u("illegal_tails_after_search"));
    let lg = plans[0].params.u("long_game_plies");
    if lg > 0 {
        out.stats.inc("reach.long_game_session");
        if lg > 1024 {
            out.stats.inc("reach.game_longer_than_1024_plies");
        }
        if h.lines.iter().any(|l| l.text.len() > 8192) {
            out.stats.inc("reach.line_longer_than_8192_bytes");
        }
    }
    if rec.end == EndReason::Deadlock {
        out.violations
            .push(Violation::new("wedged", "nothing runnable before the session finished"));
    }
    out.nontrivial = checked >= 1;
    let _ = interpret_position;
    out
}

fn short(s: &str) -> String {
    let n = s.chars().count();
    if n > 300 {
        let head: String = s.chars().take(140).collect();
        let tail: String = s.chars().skip(n - 140).collect();
        format!("{head} ... {tail}")
    } else {
        s.to_string()
    }
}
