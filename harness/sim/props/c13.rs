//! C13 — an interrupted search leaves nothing behind that can mislead a later one.
//!
//! Interruption points are crash points. The oracle latches, per search thread, at the
//! first interruption the search itself observes; the cache is snapshotted at that
//! instant and compared with what the thread leaves behind when it ends. Any entry that
//! was added or changed after the latch was computed from an unfinished subtree.

use super::super::gen::{self, Limits};
use super::super::kernel::{Action, EndReason, EvK, Plan, RunRec};
use super::super::refmodel::Pos;
use super::super::rng::Rng;
use super::super::session::history;
use super::c09::light_schedule;
use super::{common_stats, go_views, Outcome, Violation};
use crate::verif_hooks::Site;

/// Searches whose every cut point is enumerated in the thorough tier: (FEN, depth).
/// Each is small (fewer than ENUM_SPAN nodes on the current tree); the run at the
/// largest budget must complete uninterrupted, which the oracle records.
pub const ENUM_PAIRS: &[(&str, u64)] = &[
    // the first ENUM_QUICK pairs are also enumerated by the quick tier
    ("1k6/8/1K6/8/8/8/8/2R5 w - - 10 40", 4),
    ("8/5k2/8/8/8/8/1p3K2/8 b - - 0 1", 4),
    ("4k3/8/8/8/8/8/8/4K2R w K - 0 1", 4),
    ("r3k3/8/8/8/8/8/8/4K3 b q - 0 1", 4),
    ("6k1/6P1/6K1/8/8/8/8/7r w - - 0 1", 5),
    ("8/2p5/3p4/KP5r/1R3p1k/8/4P1P1/8 w - - 0 1", 4),
    ("8/8/8/8/8/5k2/7p/7K w - - 0 1", 7),
    ("1n2k3/P7/8/8/8/8/7p/4K1N1 w - - 0 1", 4),
    // thorough only
    ("4k3/8/8/8/8/8/4P3/4K3 w - - 0 1", 7),
    ("8/8/8/3k4/8/3K4/3P4/8 w - - 0 1", 7),
    ("k7/8/1K6/8/8/8/8/7R w - - 0 1", 6),
    ("6k1/5ppp/8/8/8/8/8/R3K3 w Q - 0 1", 6),
    ("8/P6k/8/8/8/8/p6K/8 w - - 0 1", 6),
    ("4r1k1/5ppp/8/8/8/8/5PPP/4R1K1 w - - 0 1", 5),
    ("rnbqkbnr/pppppppp/8/8/8/8/PPPPPPPP/RNBQKBNR w KQkq - 0 1", 4),
    ("r3k2r/8/8/8/8/8/8/R3K2R w KQkq - 0 1", 4),
    ("8/5k2/8/8/8/8/1p3K2/8 b - - 0 1", 3),
    ("4k3/8/8/8/8/8/8/4K2R w K - 0 1", 3),
    ("r1bqkb1r/pppp1ppp/2n2n2/4p2Q/2B1P3/8/PPPP1PPP/RNB1K1NR w KQkq - 4 4", 2),
    ("r3k2r/p1ppqpb1/bn2pnp1/3PN3/1p2P3/2N2Q1p/PPPBBPPP/R3K2R w KQkq - 0 1", 2),
];
pub const ENUM_QUICK: usize = 8;
pub const ENUM_SPAN: u64 = 3072;

/// "...that can mislead a later one", end to end and for every cut point: positions in which
/// the side to move has a forced mate in two (by the rules; taken from the C12 corpus), searched
/// to depth 4 with node budget N for every N, and then searched again to depth 4 without a
/// budget. The later searches complete a 3-ply iteration, so - whatever completed subtrees the
/// cache holds - they have to play a move that keeps a forced mate (C12's clause and C12's
/// oracle: "lost" only when exhaustive analysis finds no mate within four more moves after some
/// reply); they do after an uninterrupted first search and from an empty cache.
pub const MATE_SPAN: u64 = 3072;

pub fn mate_pairs(thorough: bool) -> usize {
    if thorough {
        16
    } else {
        5
    }
}

fn mate_position(k: usize) -> Pos {
    use std::sync::OnceLock;
    static POS: OnceLock<Vec<Pos>> = OnceLock::new();
    POS.get_or_init(|| {
        let mut out: Vec<Pos> = vec![];
        let mut rng = Rng::new(0xC13_0A7E);
        while out.len() < 16 {
            let Some(p) = super::c12::candidate(&mut rng) else { continue };
            if p.piece_count() > 16 || p.legal_moves().is_empty() {
                continue;
            }
            let c = super::c12::classify(&p);
            if c.m2 && !c.m1 && !out.iter().any(|q| q.to_fen() == p.to_fen()) {
                out.push(p);
            }
        }
        out
    })[k]
        .clone()
}

fn mate_case(index: u64, thorough: bool) -> Option<(usize, u64)> {
    let pairs = if thorough { ENUM_PAIRS.len() } else { ENUM_QUICK };
    let base = pairs as u64 * ENUM_SPAN;
    if index >= base && index < base + mate_pairs(thorough) as u64 * MATE_SPAN {
        let i = index - base;
        Some(((i / MATE_SPAN) as usize, i % MATE_SPAN + 1))
    } else {
        None
    }
}

fn enum_case(index: u64, thorough: bool) -> Option<(usize, u64)> {
    let pairs = if thorough { ENUM_PAIRS.len() } else { ENUM_QUICK };
    let total = pairs as u64 * ENUM_SPAN;
    if index < total {
        Some(((index / ENUM_SPAN) as usize, index % ENUM_SPAN + 1))
    } else {
        None
    }
}

pub fn generate(cx: &super::GenCtx) -> Vec<Plan> {
    let seed = cx.seed;
    let mut rng = Rng::new(seed);
    let mut plan = Plan::new("C13", seed);
    plan.tt_snapshot = true;
    plan.step_cap = 4_000_000;
    plan.tick_cap = 16_000_000;
    let mut s = vec![];
    {
        if let Some((pi, n)) = enum_case(cx.index, cx.thorough) {
            let (fen, d) = ENUM_PAIRS[pi];
            s.push(Action::send(format!("position fen {fen}")));
            s.push(Action::send(format!("go depth {d} nodes {n}")));
            s.push(Action::WaitBestmove);
            s.push(Action::WaitIdle);
            s.push(Action::send("quit"));
            plan.script = s;
            plan.cost_ns = 1000;
            plan.policy = Some(super::super::kernel::Policy::Quiet);
            plan.params = super::super::json::J::obj()
                .set("enum_pair", pi)
                .set("enum_nodes", n);
            return vec![plan];
        }
    }
    if let Some((k, n)) = mate_case(cx.index, cx.thorough) {
        let pos = mate_position(k);
        s.push(Action::send(format!("position fen {}", pos.to_fen())));
        s.push(Action::send(format!("go depth 4 nodes {n}")));
        s.push(Action::WaitBestmove);
        s.push(Action::WaitIdle);
        for d in [3, 4] {
            s.push(Action::send(format!("go depth {d}")));
            s.push(Action::WaitBestmove);
            s.push(Action::WaitIdle);
        }
        s.push(Action::send("quit"));
        plan.script = s;
        plan.cost_ns = 1000;
        plan.policy = Some(super::super::kernel::Policy::Quiet);
        plan.params = super::super::json::J::obj()
            .set("mate_after_cut", k)
            .set("enum_nodes", n);
        return vec![plan];
    }
    // sampled interruptions
    let (cmd, dense) = if rng.chance(1, 3) {
        let (fen, _) = *rng.pick(ENUM_PAIRS);
        (format!("position fen {fen}"), false)
    } else {
        let spec = gen::random_posspec(&mut rng);
        (spec.cmd.clone(), spec.dense)
    };
    s.push(Action::send(cmd));
    let searches = rng.range(1, 3);
    for _ in 0..searches {
        let d = rng.range(2, if dense { 3 } else { 5 });
        let mut l = Limits {
            depth: Some(d),
            ..Limits::default()
        };
        let mut stop_after = None;
        match rng.below(8) {
            0..=3 => {
                // node budget, log-uniform
                let hi = if dense { 30_000.0f64 } else { 8_000.0 };
                let n = (hi.ln() * rng.f64()).exp() as u64;
                l.nodes = Some(n.max(1));
            }
            4..=5 => {
                let hi = 40_000.0f64;
                stop_after = Some((hi.ln() * rng.f64()).exp() as u64);
                if rng.chance(1, 2) {
                    l = Limits {
                        infinite: true,
                        ..Limits::default()
                    };
                }
            }
            6 => l.movetime = Some(rng.below(30)),
            _ => {
                l.wtime = Some(rng.below(600));
                l.btime = Some(rng.below(600));
                if rng.chance(1, 3) {
                    l.winc = Some(rng.below(40));
                    l.binc = Some(rng.below(40));
                }
            }
        }
        s.push(Action::send(l.line(Some(&mut rng))));
        let mut eager = false;
        if let Some(k) = stop_after {
            s.push(Action::DelaySteps(k));
            s.push(Action::send("stop"));
            // sometimes the next go follows the stop at once, while the stopped search is
            // still unwinding
            eager = rng.chance(1, 2);
        }
        if !eager {
            s.push(Action::WaitBestmove);
            s.push(Action::WaitIdle);
        }
    }
    s.push(Action::WaitBestmove);
    s.push(Action::WaitIdle);
    s.push(Action::send("quit"));
    plan.script = s;
    gen::machine(&mut plan, &mut rng, 30_000, true);
    light_schedule(&mut plan, &mut rng);
    vec![plan]
}

pub fn check(plans: &[Plan], recs: &[RunRec]) -> Outcome {
    let (plan, rec) = (&plans[0], &recs[0]);
    let mut out = Outcome::default();
    common_stats(plan, rec, &mut out.stats);
    super::check_input_blocked(rec, &mut out);
    super::check_input_panic(rec, &mut out);
    let h = history(rec);
    let views = go_views(&h);
    let enum_pair = plan.params.get("enum_pair").and_then(super::super::json::J::as_u64);
    for v in &views {
        let g = v.go;
        let Some(tid) = g.tid else { continue };
        let t = &rec.threads[tid as usize];
        out.stats.inc("searches");
        let sites = ["root", "cutoff", "node_end"];
        for (i, n) in t.inserts_before_abort.iter().enumerate() {
            if *n > 0 {
                out.stats.inc(&format!("reach.write_site_{}_seen_before_abort", sites[i]));
            }
        }
        if t.first_abort.is_none() && t.inserts_over_budget > 0 {
            out.violations.push(Violation::new(
                "cache_write_at_exhausted_budget",
                format!(
                    "go #{} ({:?}): {} cache insert(s) with the node counter at or over the budget, and the search never acknowledged an interruption",
                    v.idx, v.text, t.inserts_over_budget
                ),
            ));
        }
        match t.first_abort {
            None => {
                out.stats.inc("searches_not_interrupted");
                if let Some(p) = enum_pair {
                    out.stats.inc(&format!("enum.pair{p}.ran_to_completion"));
                }
                continue;
            }
            Some((site, ply, _)) => {
                out.stats.inc("searches_interrupted");
                out.stats.inc(match site {
                    Site::AlphaBetaEntry | Site::AlphaBetaAfterChild => "reach.abort_seen_in_alpha_beta",
                    Site::QuiescenceEntry => "reach.abort_seen_in_quiescence",
                    _ => "reach.abort_seen_at_root",
                });
                if g.infos.is_empty() {
                    out.stats.inc("reach.abort_in_iteration_1");
                }
                let _ = ply;
                let l = &v.limits;
                if g.stop_ev.is_some() {
                    out.stats.inc("fault.interrupt_by_stop");
                } else if l.nodes.is_some() {
                    out.stats.inc("fault.interrupt_by_node_budget");
                } else if l.movetime.is_some() {
                    out.stats.inc("fault.interrupt_by_movetime");
                } else if l.wtime.is_some() || l.btime.is_some() {
                    out.stats.inc("fault.interrupt_by_clock");
                } else {
                    out.stats.inc("fault.interrupt_other");
                }
            }
        }
        // the verdict: anything written after the latch?
        let mut diff = None;
        let mut first_write = None;
        for e in &rec.events {
            if e.tid != tid {
                continue;
            }
            match &e.k {
                EvK::TtDiffAfterAbort(d) => diff = Some(*d),
                EvK::TtWriteAfterAbort { site, key, score, depth, nodes, budget } if first_write.is_none() => {
                    first_write = Some(format!(
                        "first such write: site {site:?}, key {key}, score {score}, depth {depth}, after {nodes} nodes (budget {budget:?})"
                    ));
                }
                _ => {}
            }
        }
        let changed = diff.unwrap_or(0);
        if t.inserts_over_budget > 0 && !(changed > 0 || t.inserts_after_abort > 0) {
            // independent of the abort observers: the node counter had reached the budget when
            // the entry was written, so the value depends on a child that could not be searched
            out.violations.push(Violation::new(
                "cache_write_at_exhausted_budget",
                format!(
                    "go #{} ({:?}) in {}: {} cache insert(s) were made with the node counter at or over the node budget",
                    v.idx,
                    v.text,
                    v.pos.as_ref().map_or("?".into(), Pos::to_fen),
                    t.inserts_over_budget
                ),
            ));
        }
        if t.entries_from_unfinished_nodes > 0 {
            let first = rec
                .events
                .iter()
                .find_map(|e| match &e.k {
                    EvK::TtEntryFromUnfinishedNode { key, score, depth, nodes, .. } if e.tid == tid => Some(format!(
                        "first: key {key}, score {score}, depth {depth}, written after {nodes} nodes"
                    )),
                    _ => None,
                })
                .unwrap_or_default();
            out.violations.push(Violation::new(
                "cache_entry_from_unfinished_node",
                format!(
                    "go #{} ({:?}) in {}: {} cache entr{} still there at the end of the interrupted search had been written by a node that went on to search further moves of its own and was then closed by the interruption without writing again - an interim value computed from a part of the node's moves; {}",
                    v.idx,
                    v.text,
                    v.pos.as_ref().map_or("?".into(), Pos::to_fen),
                    t.entries_from_unfinished_nodes,
                    if t.entries_from_unfinished_nodes == 1 { "y that was" } else { "ies that were" },
                    first
                ),
            ));
        }
        if changed > 0 || t.inserts_after_abort > 0 {
            out.violations.push(Violation::new(
                "cache_write_after_interruption",
                format!(
                    "go #{} ({:?}) in {}: after the search observed its interruption, {} cache entr{} added or changed ({} observed insert call(s)); {}",
                    v.idx,
                    v.text,
                    v.pos.as_ref().map_or("?".into(), Pos::to_fen),
                    changed,
                    if changed == 1 { "y was" } else { "ies were" },
                    t.inserts_after_abort,
                    first_write.unwrap_or_else(|| "insert not seen by the observers (cache diff only)".into())
                ),
            ));
        } else if g.thread_ended {
            out.stats.inc("interrupted_searches_clean");
        }
    }
    for later in views.iter().skip(1).filter(|_| plan.params.get("mate_after_cut").is_some()) {
        let first = &views[0];
        let cut = first.go.tid.is_some_and(|t| rec.threads[t as usize].first_abort.is_some());
        if let (Some(pos), Some(b)) = (&later.pos, later.go.bestmoves.first()) {
            let mv = b.text.split_whitespace().nth(1).unwrap_or("");
            out.stats.inc(if cut { "reach.later_search_after_cut" } else { "later_search_after_completed_search" });
            // (a minimised script may have lost the position the family is about)
            let c = super::c12::classify(pos);
            if !c.m2 || c.m1 {
                continue;
            }
            // C12's clause speaks of a search that has completed a 3-ply iteration (a minimised
            // script may have shrunk the later `go depth 3` to `go depth 0`, which owes nothing)
            if !later.go.infos.iter().filter_map(|i| super::c14::parse_info(&i.text).ok()).any(|i| i.depth == 3) {
                out.stats.inc("later_search_vacuous_no_depth3_iteration");
                continue;
            }
            let verdict = pos
                .find_uci(mv)
                .map_or(("lost", "the move is not legal".to_string()), |m| super::c12::forced_mate_verdict(pos, m));
            if verdict.0 == "unproven" {
                out.stats.inc("inconclusive.later_search_followup_not_settled");
            }
            if verdict.0 == "lost" && later.go.thread_ended {
                out.violations.push(Violation::new(
                    if cut { "later_search_misled" } else { "later_search_wrong_without_cut" },
                    format!(
                        "in {} (forced mate in two by the rules) {:?} was {}, and the following {:?} then answered {:?}, which gives the forced mate away: {}",
                        pos.to_fen(),
                        first.text,
                        if cut { "cut short by its node budget" } else { "completed" },
                        later.text,
                        b.text,
                        verdict.1
                    ),
                ));
            }
        }
    }
    if rec.end == EndReason::Deadlock {
        out.violations
            .push(Violation::new("wedged", "nothing runnable before the session finished"));
    }
    out.nontrivial = views.iter().any(|v| v.go.tid.is_some());
    out
}
