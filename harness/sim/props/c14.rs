//! C14 — search progress reports are truthful and well-formed.

use super::super::gen::{self, Limits};
use super::super::kernel::{EndReason, Plan, RunRec};
use super::super::refmodel::Pos;
use super::super::rng::Rng;
use super::super::session::history;
use super::c09::{light_schedule, session_script};
use super::{common_stats, go_views, Outcome, Violation};

fn limits(rng: &mut Rng, dense: bool) -> Limits {
    // Half of the searches are `go depth N` alone (the completeness clause).
    if rng.chance(1, 2) {
        let maxd = if dense { 3 } else { 5 };
        Limits {
            depth: Some(rng.range(1, maxd)),
            ..Limits::default()
        }
    } else {
        gen::random_limits(rng, dense)
    }
}

/// Long sessions: the cache is never cleared inside a UCI session, so a few million nodes of
/// earlier searches sit in it when a position the engine has not seen yet is searched.
pub fn long_sessions(thorough: bool) -> u64 {
    if thorough {
        96
    } else {
        16
    }
}

fn long_session(seed: u64, thorough: bool) -> Vec<Plan> {
    use super::super::kernel::{Action, Policy};
    let mut rng = Rng::new(seed);
    let mut plan = Plan::new("C14", seed);
    let mut s = vec![];
    // (thorough: long enough for the cache to pass a million entries)
    let searches = if thorough { rng.range(14, 22) } else { rng.range(4, 6) };
    for _ in 0..searches {
        s.push(Action::send(format!("position fen {}", rng.pick(gen::BENCH_FENS))));
        let (lo, hi) = if thorough { (600_000, 1_100_000) } else { (400_000, 800_000) };
        s.push(Action::send(format!("go nodes {}", rng.range(lo, hi))));
        s.push(Action::WaitBestmove);
        s.push(Action::WaitIdle);
        // probes on positions the session has not seen
        for _ in 0..2 {
            let p = gen::sparse_position(&mut rng);
            s.push(Action::send(format!("position fen {}", p.to_fen())));
            s.push(Action::send(format!("go depth {}", rng.range(1, 3))));
            s.push(Action::WaitBestmove);
            s.push(Action::WaitIdle);
        }
    }
    s.push(Action::send("quit"));
    plan.script = s;
    plan.cost_ns = 1000;
    plan.policy = Some(Policy::Quiet);
    plan.step_cap = 400_000_000;
    plan.tick_cap = 1_500_000_000;
    plan.params = super::super::json::J::obj().set("long_session", true);
    vec![plan]
}

/// "for all depth limits N >= 1": very large N is only affordable where the tree is tiny.
const DEEP_LIMIT_CASES: u64 = 6;

fn deep_limit(seed: u64, k: u64) -> Vec<Plan> {
    use super::super::kernel::{Action, Policy};
    let fen = ["8/8/4k3/8/8/4K3/8/8 w - - 0 1", "8/8/8/3k4/8/8/3K4/8 b - - 0 1", "k7/8/8/8/8/8/8/7K w - - 0 1"][(k % 3) as usize];
    let depth = [129u64, 200, 255, 96, 160, 254][(k % 6) as usize];
    let mut plan = Plan::new("C14", seed);
    plan.script = vec![
        Action::send(format!("position fen {fen}")),
        Action::send(format!("go depth {depth}")),
        Action::WaitBestmove,
        Action::WaitIdle,
        Action::send("quit"),
    ];
    plan.cost_ns = 1000;
    plan.policy = Some(Policy::Quiet);
    plan.step_cap = 60_000_000;
    plan.tick_cap = 200_000_000;
    plan.params = super::super::json::J::obj().set("deep_limit", depth);
    vec![plan]
}

/// "each with a score in centipawns or moves-to-mate", truthfully: positions in which a mate is
/// near (the C12 corpus: forced mates in one and two, threats of them), searched a few plies
/// deeper than the mate, more than once, so that iterations run on a warm cache as well.
fn mate_problem(seed: u64) -> Vec<Plan> {
    use super::super::kernel::Action;
    let mut rng = Rng::new(seed ^ 0x3a7e);
    let mut found = None;
    for _ in 0..400 {
        let Some(p) = super::c12::candidate(&mut rng) else { continue };
        if p.legal_moves().is_empty() {
            continue;
        }
        let c = super::c12::classify(&p);
        if c.m1 || c.m2 || c.threat {
            found = Some(p);
            break;
        }
    }
    let Some(pos) = found else { return vec![] };
    let mut plan = Plan::new("C14", seed);
    let mut s = vec![Action::send(format!("position fen {}", pos.to_fen()))];
    let maxd = if pos.piece_count() <= 8 {
        7
    } else if pos.piece_count() <= 22 {
        5
    } else {
        3
    };
    for _ in 0..rng.range(1, 3) {
        s.push(Action::send(format!("go depth {}", rng.range(2, maxd))));
        s.push(Action::WaitBestmove);
        s.push(Action::WaitIdle);
    }
    s.push(Action::send("quit"));
    plan.script = s;
    plan.step_cap = 12_000_000;
    plan.tick_cap = 40_000_000;
    gen::machine(&mut plan, &mut rng, 60_000, true);
    light_schedule(&mut plan, &mut rng);
    plan.params = super::super::json::J::obj().set("mate_problem", true);
    vec![plan]
}

/// What the rules of chess say about a mate score's SIGN (its size is not checked: the statement
/// does not promise exact distances). `Some(true)`: the side to move can force mate within two
/// of its own moves. `Some(false)`: whatever it plays, the opponent can. `None`: neither
/// proven within the budget.
fn proven_winner(pos: &Pos) -> Option<bool> {
    use super::super::refmodel::Solver;
    let mut so = Solver::new(400_000);
    if so.mate_in(pos, 2) == Some(true) {
        return Some(true);
    }
    let mut so = Solver::new(400_000);
    let ms = pos.legal_moves();
    if !ms.is_empty() && ms.iter().all(|&m| so.mate_in(&pos.make(m), 2) == Some(true)) {
        return Some(false);
    }
    None
}

pub fn generate(cx: &super::GenCtx) -> Vec<Plan> {
    let seed = cx.seed;
    if cx.index % 10 == 7 && cx.index >= 100 {
        return mate_problem(seed);
    }
    if cx.index < long_sessions(cx.thorough) {
        return long_session(seed, cx.thorough);
    }
    if cx.index < long_sessions(cx.thorough) + DEEP_LIMIT_CASES {
        return deep_limit(seed, cx.index - long_sessions(cx.thorough));
    }
    let mut rng = Rng::new(seed);
    let mut plan = Plan::new("C14", seed);
    let mut s = session_script(&mut rng, limits, 4);
    gen::decorate_all(&mut s, &mut rng, 1);
    plan.script = s;
    plan.step_cap = 6_000_000;
    plan.tick_cap = 20_000_000;
    gen::machine(&mut plan, &mut rng, 60_000, true);
    light_schedule(&mut plan, &mut rng);
    vec![plan]
}

pub struct Info {
    pub depth: u64,
    pub seldepth: Option<u64>,
    pub nodes: u64,
    pub time: Option<u64>,
    pub nps: Option<u64>,
    pub cp: Option<i64>,
    pub mate: Option<i64>,
    pub pv: Vec<String>,
}

/// `info depth D [seldepth S] nodes N [time T] [nps R] score (cp V | mate M) pv m1 ...`
pub fn parse_info(line: &str) -> Result<Info, String> {
    let t: Vec<&str> = line.split_whitespace().collect();
    if t.first() != Some(&"info") {
        return Err("does not start with 'info'".into());
    }
    let mut i = 1;
    let mut info = Info {
        depth: 0,
        seldepth: None,
        nodes: 0,
        time: None,
        nps: None,
        cp: None,
        mate: None,
        pv: vec![],
    };
    let mut seen_depth = false;
    let mut seen_nodes = false;
    let mut seen_pv = false;
    let num = |t: &[&str], i: usize, what: &str| -> Result<u64, String> {
        t.get(i)
            .ok_or(format!("'{what}' without a value"))?
            .parse::<u64>()
            .map_err(|_| format!("'{what}' value {:?} is not a non-negative integer", t[i]))
    };
    while i < t.len() {
        match t[i] {
            "depth" => {
                info.depth = num(&t, i + 1, "depth")?;
                seen_depth = true;
                i += 2;
            }
            "seldepth" => {
                info.seldepth = Some(num(&t, i + 1, "seldepth")?);
                i += 2;
            }
            "nodes" => {
                info.nodes = num(&t, i + 1, "nodes")?;
                seen_nodes = true;
                i += 2;
            }
            "time" => {
                info.time = Some(num(&t, i + 1, "time")?);
                i += 2;
            }
            "nps" => {
                info.nps = Some(num(&t, i + 1, "nps")?);
                i += 2;
            }
            "score" => {
                let kind = t.get(i + 1).ok_or("'score' without kind")?;
                let v: i64 = t
                    .get(i + 2)
                    .ok_or("'score' without value")?
                    .parse()
                    .map_err(|_| format!("score value {:?} is not an integer", t[i + 2]))?;
                match *kind {
                    "cp" => info.cp = Some(v),
                    "mate" => info.mate = Some(v),
                    k => return Err(format!("score kind {k:?} is neither cp nor mate")),
                }
                i += 3;
            }
            "pv" => {
                seen_pv = true;
                info.pv = t[i + 1..].iter().map(|s| (*s).to_string()).collect();
                i = t.len();
            }
            other => return Err(format!("unexpected token {other:?}")),
        }
    }
    if !seen_depth {
        return Err("no depth".into());
    }
    if !seen_nodes {
        return Err("no nodes".into());
    }
    if info.cp.is_none() && info.mate.is_none() {
        return Err("no score".into());
    }
    if !seen_pv || info.pv.is_empty() {
        return Err("no principal variation".into());
    }
    Ok(info)
}

pub fn pv_legal(pos: &Pos, pv: &[String]) -> Result<(), String> {
    let mut cur = pos.clone();
    for (i, m) in pv.iter().enumerate() {
        match cur.find_uci(m) {
            Some(mv) => cur = cur.make(mv),
            None => return Err(format!("pv move #{} {m:?} is not legal in {}", i + 1, cur.to_fen())),
        }
    }
    Ok(())
}

pub fn check(plans: &[Plan], recs: &[RunRec]) -> Outcome {
    let (plan, rec) = (&plans[0], &recs[0]);
    let mut out = Outcome::default();
    common_stats(plan, rec, &mut out.stats);
    super::check_input_blocked(rec, &mut out);
    super::check_input_panic(rec, &mut out);
    let h = history(rec);
    let views = go_views(&h);
    if plan.params.get("deep_limit").is_some() {
        out.stats.inc("reach.depth_limit_over_95");
    }
    if plan.params.b("long_session") {
        out.stats.inc("reach.long_session");
        out.stats.max("cache_entries_at_end_of_long_session", super::super::kernel::tt_len() as u64);
    }
    let mut warm = false;
    for v in &views {
        let g = v.go;
        if (g.tid.is_none() && !g.inline) || g.refused {
            continue;
        }
        if v.pos.as_ref().is_none_or(|p| p.legal_moves().is_empty()) {
            continue; // the property is about positions with a legal move
        }
        if warm {
            out.stats.inc("reach.warm_cache_search");
        }
        warm = true;
        if let Some(b) = g.bestmoves.first() {
            if g.infos.iter().any(|i| i.ev > b.ev) {
                out.violations.push(Violation::new(
                    "info_after_bestmove",
                    format!("go #{} ({:?}) printed an info line after its bestmove", v.idx, v.text),
                ));
            }
        }
        let mut expect = 1u64;
        let mut order_ok = true;
        let mut winner: Option<Option<bool>> = None;
        for i in &g.infos {
            if !i.text.starts_with("info") {
                continue; // not an info line (the engine prints nothing else from the search thread)
            }
            out.stats.inc("info_lines");
            match parse_info(&i.text) {
                Err(e) => {
                    out.violations.push(Violation::new(
                        "malformed_info",
                        format!("go #{} ({:?}): {e}: {:?}", v.idx, v.text, i.text),
                    ));
                }
                Ok(info) => {
                    if info.depth != expect && order_ok {
                        order_ok = false;
                        out.violations.push(Violation::new(
                            "depth_sequence",
                            format!(
                                "go #{} ({:?}): expected the report for depth {expect}, got depth {}",
                                v.idx, v.text, info.depth
                            ),
                        ));
                    }
                    expect = info.depth + 1;
                    if info.mate.is_some() {
                        out.stats.inc(if info.mate.unwrap() > 0 {
                            "reach.mate_score_positive"
                        } else {
                            "reach.mate_score_negative"
                        });
                    }
                    if let (Some(m), Some(p)) = (info.mate, &v.pos) {
                        let truth = *winner.get_or_insert_with(|| proven_winner(p));
                        if let Some(side_to_move_mates) = truth {
                            out.stats.inc("mate_sign_checked_against_rules");
                            if side_to_move_mates != (m > 0) {
                                out.violations.push(Violation::new(
                                    "mate_sign_untruthful",
                                    format!(
                                        "go #{} ({:?}) from {}: line {:?} says the side to move {} although by the rules it {} by force within two moves",
                                        v.idx,
                                        v.text,
                                        p.to_fen(),
                                        i.text,
                                        if m > 0 { "mates" } else { "is mated" },
                                        if side_to_move_mates { "mates" } else { "is mated" },
                                    ),
                                ));
                            }
                        }
                    }
                    if (info.pv.len() as u64) < info.depth {
                        out.stats.inc("reach.pv_shorter_than_depth");
                    }
                    if info.time.is_none() {
                        out.stats.inc("reach.no_time_field");
                    }
                    // informational only (the statement does not require mate distances to be
                    // exact): does a claimed "mate in M" come with a PV that ends in mate?
                    if let (Some(m), Some(p)) = (info.mate, &v.pos) {
                        if m > 0 {
                            let mut cur = p.clone();
                            let mut ok = true;
                            for mv in &info.pv {
                                match cur.find_uci(mv) {
                                    Some(x) => cur = cur.make(x),
                                    None => {
                                        ok = false;
                                        break;
                                    }
                                }
                            }
                            if ok && cur.is_checkmate() && info.pv.len() as i64 == 2 * m - 1 {
                                out.stats.inc("info.mate_claim_backed_by_pv");
                            } else {
                                out.stats.inc("info.mate_claim_not_backed_by_pv");
                            }
                        }
                    }
                    if let Some(p) = &v.pos {
                        if let Err(e) = pv_legal(p, &info.pv) {
                            out.violations.push(Violation::new(
                                "illegal_pv",
                                format!("go #{} ({:?}) from {}: {e}; line {:?}", v.idx, v.text, p.to_fen(), i.text),
                            ));
                        } else {
                            out.stats.inc("pv_checked");
                        }
                    }
                }
            }
        }
        // completeness: `go depth N` with no other limit reports every depth up to N
        let l = &v.limits;
        let only_depth = l.depth.is_some()
            && l.nodes.is_none()
            && l.movetime.is_none()
            && l.wtime.is_none()
            && l.btime.is_none()
            && l.winc.is_none()
            && l.binc.is_none();
        if only_depth && (!g.bestmoves.is_empty() || g.thread_ended) {
            let n = l.depth.unwrap();
            let before_best = g
                .infos
                .iter()
                .filter(|i| g.bestmoves.first().is_none_or(|b| i.ev < b.ev))
                .filter_map(|i| parse_info(&i.text).ok())
                .map(|i| i.depth)
                .collect::<Vec<_>>();
            out.stats.inc("depth_only_searches");
            let missing: Vec<u64> = (1..=n).filter(|d| !before_best.contains(d)).collect();
            if !missing.is_empty() {
                out.violations.push(Violation::new(
                    "depth_not_reported",
                    format!(
                        "go #{} ({:?}) in {}: depths {:?} were never reported before bestmove (reported: {:?})",
                        v.idx,
                        v.text,
                        v.pos.as_ref().map_or("?".into(), Pos::to_fen),
                        missing,
                        before_best
                    ),
                ));
            }
            if before_best.iter().any(|d| *d > n) {
                out.violations.push(Violation::new(
                    "depth_beyond_limit",
                    format!("go #{} ({:?}) reported depths {:?}", v.idx, v.text, before_best),
                ));
            }
        }
    }
    if rec.end == EndReason::Deadlock {
        out.violations
            .push(Violation::new("wedged", "nothing runnable before the session finished"));
    }
    out.nontrivial = views.iter().any(|v| !v.go.infos.is_empty());
    out
}
