//! C09 — every go is answered by exactly one legal bestmove, whatever the limits.

use super::super::gen::{self, Limits};
use super::super::kernel::{Action, EndReason, EvK, Plan, Policy, RunRec};
use super::super::rng::Rng;
use super::super::session::history;
use super::{check_answers, common_stats, go_views, panic_kind, Outcome, Violation, I_ALLOW, W_ALLOW_TICKS};
use crate::verif_hooks::Site;

pub fn light_schedule(plan: &mut Plan, rng: &mut Rng) {
    if rng.chance(1, 4) {
        // a quarter of the runs get the full schedule space
        gen::schedule(plan, rng, 20_000);
        return;
    }
    plan.sched_seed = rng.next_u64();
    plan.policy = Some(match rng.below(4) {
        0 | 1 => Policy::Quiet,
        2 => Policy::Uniform(0.002),
        _ => Policy::Points(vec![rng.below(4000), rng.below(40_000)]),
    });
}

/// A move to continue a game with: random, but checks are favoured (positions in check
/// are where stale cached moves tend to be illegal).
fn continuation_move(pos: &super::super::refmodel::Pos, rng: &mut Rng) -> Option<super::super::refmodel::Mv> {
    let ms = pos.legal_moves();
    if ms.is_empty() {
        return None;
    }
    let w: Vec<u64> = ms
        .iter()
        .map(|m| {
            let p2 = pos.make(*m);
            if p2.in_check(p2.white) {
                8
            } else if m.capture {
                3
            } else {
                1
            }
        })
        .collect();
    let total: u64 = w.iter().sum();
    let mut x = rng.below(total);
    for (i, wi) in w.iter().enumerate() {
        if x < *wi {
            return Some(ms[i]);
        }
        x -= wi;
    }
    ms.last().copied()
}

pub fn session_script(rng: &mut Rng, mut pick_limits: impl FnMut(&mut Rng, bool) -> Limits, max_gos: u64) -> Vec<Action> {
    let mut s = vec![];
    if rng.chance(1, 4) {
        s.push(Action::send("ucinewgame"));
    }
    let mut spec = gen::random_posspec(rng);
    s.push(Action::send(spec.cmd.clone()));
    // Half of the sessions continue ONE game the way a GUI does (the same game, a ply or
    // two longer each time), so that later roots lie inside earlier search trees.
    let continuation = rng.chance(1, 2);
    let eager = rng.chance(1, 3);
    let gos = rng.range(1, max_gos);
    for k in 0..gos {
        let l = pick_limits(rng, spec.dense);
        s.push(Action::send(l.line(Some(rng))));
        if rng.chance(1, 8) {
            // a flood of harmless commands while the search runs, a few dozen yield points
            // apart, so that some of them land in every kind of window the search has
            let mut reset = false;
            for _ in 0..rng.range(20, 60) {
                s.push(Action::DelaySteps(rng.below(40)));
                match rng.below(8) {
                    0 => {
                        s.push(Action::send("ucinewgame"));
                        reset = true;
                    }
                    1 => s.push(Action::send("setoption name Hash value 1")),
                    2 => s.push(Action::send(spec.cmd.clone())),
                    _ => s.push(Action::send("isready")),
                }
            }
            if reset {
                // put the session position back where the generator thinks it is
                s.push(Action::send(spec.cmd.clone()));
            }
        }
        s.push(Action::WaitBestmove);
        // usually the GUI's next command finds the search thread gone; sometimes it arrives
        // in the instant after the bestmove
        if !eager || rng.chance(1, 2) {
            s.push(Action::WaitIdle);
        }
        if k + 1 < gos && rng.chance(1, 4) {
            // the GUI thinks for a while (discrete-event time: the clock jumps)
            s.push(Action::DelayNs(rng.range(1_000_000, 3_000_000_000)));
        }
        if k + 1 < gos && continuation {
            let mut cur = spec.pos().clone();
            let mut added = vec![];
            for _ in 0..rng.range(1, 2) {
                let Some(m) = continuation_move(&cur, rng) else { break };
                let nxt = cur.make(m);
                if nxt.legal_moves().is_empty() {
                    break;
                }
                cur = nxt;
                added.push(m);
                spec.game.push(cur.clone());
            }
            if !added.is_empty() {
                let extra = gen::moves_str(&added);
                spec.cmd = if spec.cmd.contains(" moves ") {
                    format!("{} {extra}", spec.cmd)
                } else {
                    format!("{} moves {extra}", spec.cmd)
                };
                s.push(Action::send(spec.cmd.clone()));
            }
        } else if k + 1 < gos && rng.chance(1, 2) {
            spec = gen::random_posspec(rng);
            s.push(Action::send(spec.cmd.clone()));
        }
    }
    s.push(Action::send("isready"));
    s.push(Action::send("quit"));
    s
}

pub fn generate(cx: &super::GenCtx) -> Vec<Plan> {
    let seed = cx.seed;
    let mut rng = Rng::new(seed);
    let mut plan = Plan::new("C09", seed);
    let mut s = session_script(&mut rng, gen::random_limits, 6);
    gen::decorate_all(&mut s, &mut rng, 1);
    plan.script = s;
    plan.step_cap = 6_000_000;
    plan.tick_cap = 20_000_000;
    gen::machine(&mut plan, &mut rng, 60_000, true);
    light_schedule(&mut plan, &mut rng);
    vec![plan]
}

pub fn check(plans: &[Plan], recs: &[RunRec]) -> Outcome {
    let (plan, rec) = (&plans[0], &recs[0]);
    let mut out = Outcome::default();
    common_stats(plan, rec, &mut out.stats);
    super::check_input_blocked(rec, &mut out);
    let h = history(rec);
    let views = go_views(&h);
    for (tid, msg) in &h.panics {
        if *tid == 0 {
            out.violations
                .push(Violation::new(&panic_kind("input_thread_panic", msg), msg.clone()));
        }
    }
    check_answers(&views, &mut out, "C09");
    let capped = matches!(rec.end, EndReason::StepCap | EndReason::TickCap);
    for v in &views {
        let g = v.go;
        if (g.tid.is_none() && !g.inline) || g.refused {
            continue;
        }
        let Some(pos) = &v.pos else { continue };
        let white = pos.white;
        let l = &v.limits;
        // reach probes
        let own = if white { l.wtime } else { l.btime };
        let opp = if white { l.btime } else { l.wtime };
        let own_inc = if white { l.winc } else { l.binc };
        if own.is_none() && own_inc.is_none() && (opp.is_some()) {
            out.stats.inc("reach.only_opponent_clock");
        }
        if (own.is_some() || own_inc.is_some() || opp.is_some())
            && own.unwrap_or(0) / 20 + own_inc.unwrap_or(0) / 2 == 0
        {
            out.stats.inc("reach.time_budget_zero");
        }
        let nlegal = pos.legal_moves().len();
        if nlegal == 1 {
            out.stats.inc("reach.single_legal_move");
        }
        if pos.in_check(white) {
            out.stats.inc("reach.side_to_move_in_check");
        }
        if g.first_abort_ev.is_some() && g.infos.is_empty() {
            out.stats.inc("reach.no_iteration_completed_before_abort");
        }
        if let Some(a) = g.first_abort_ev {
            if let EvK::Abort(site, _) = &rec.events[a].k {
                match site {
                    Site::QuiescenceEntry => out.stats.inc("reach.abort_first_seen_in_quiescence"),
                    Site::AlphaBetaEntry | Site::AlphaBetaAfterChild => out.stats.inc("reach.abort_first_seen_in_alpha_beta"),
                    _ => out.stats.inc("reach.abort_first_seen_at_root"),
                }
            }
        }
        if g.stall_ns > 0 {
            out.stats.inc("reach.stall_during_search");
        }
        if g.bestmoves.is_empty() && !g.thread_ended && g.tid.is_some() {
            // still searching when the run ended: overdue if the limits' deadline passed long ago
            if let Some(dl) = l.deadline_ms(white) {
                let last = rec.events.last().map_or((0, 0, 0), |e| (e.clock, e.stalled, e.ticks));
                let own = g.tid.map_or(0, |t| rec.threads[t as usize].ticks);
                let foreign = last.2.saturating_sub(v.deliver_ticks).saturating_sub(own).saturating_mul(plan.cost_ns);
                let work = last
                    .0
                    .saturating_sub(v.deliver_clock)
                    .saturating_sub(last.1.saturating_sub(v.deliver_stalled))
                    .saturating_sub(foreign);
                let allow = dl.saturating_mul(1_000_000).saturating_add(W_ALLOW_TICKS * plan.cost_ns);
                if work > allow {
                    out.violations.push(Violation::new(
                        "over_deadline",
                        format!(
                            "go #{} ({:?}), {} to move: limits allow {dl} ms, still no bestmove after {:.3} ms of work (run ended by {:?})",
                            v.idx,
                            v.text,
                            if white { "white" } else { "black" },
                            work as f64 / 1e6,
                            rec.end
                        ),
                    ));
                    continue;
                }
            }
            if capped {
                out.stats.inc("inconclusive.search_alive_at_cap");
            }
            continue;
        }
        // timing: work time from go to bestmove within what the limits allow
        if let (Some(b), Some(dl)) = (g.bestmoves.first(), l.deadline_ms(white)) {
            let injected = b.stalled.saturating_sub(v.deliver_stalled);
            // work other threads did meanwhile (the input thread handling a flood of commands)
            // shares the one virtual clock; on a real machine it runs beside the search, so it is
            // not charged to the search's deadline
            let foreign = b
                .ticks
                .saturating_sub(v.deliver_ticks)
                .saturating_sub(b.tticks)
                .saturating_mul(plan.cost_ns);
            let work = b
                .clock
                .saturating_sub(v.deliver_clock)
                .saturating_sub(injected)
                .saturating_sub(foreign);
            let allow = dl.saturating_mul(1_000_000).saturating_add(W_ALLOW_TICKS * plan.cost_ns);
            out.stats.inc("deadline_checked");
            let over_ticks = work.saturating_sub(dl.saturating_mul(1_000_000)) / plan.cost_ns.max(1);
            out.stats.max("ticks_past_deadline", over_ticks);
            if injected > 0 && work < dl.saturating_mul(1_000_000) {
                out.stats.inc("reach.deadline_cut_short_by_stall");
            }
            if work > allow {
                out.violations.push(Violation::new(
                    "over_deadline",
                    format!(
                        "go #{} ({:?}), {} to move: limits allow {dl} ms, bestmove after {:.3} ms of work ({} ticks past the deadline; allowance {W_ALLOW_TICKS} ticks at {} ns)",
                        v.idx,
                        v.text,
                        if white { "white" } else { "black" },
                        work as f64 / 1e6,
                        over_ticks,
                        plan.cost_ns
                    ),
                ));
            }
        }
        if let (Some(m), false) = (&g.panic, g.bestmoves.is_empty()) {
            out.violations.push(Violation::new(
                &panic_kind("search_thread_panic", m),
                format!("go #{} ({:?}): {m}", v.idx, v.text),
            ));
        }
    }
    // the engine accepts the next command normally
    for (i, l) in h.lines.iter().enumerate() {
        if l.text.split_whitespace().next() == Some("isready") {
            match l.outs.iter().find(|(t, _)| t == "readyok") {
                Some((_, y)) => {
                    if y.saturating_sub(l.t0_yields) > I_ALLOW {
                        out.violations
                            .push(Violation::new("readyok_slow", format!("line {i}")));
                    }
                }
                None => {
                    if !h.panics.iter().any(|(t, _)| *t == 0) && l.t0_yields_back.is_some() {
                        out.violations
                            .push(Violation::new("no_readyok", format!("isready (line {i}) was not answered")));
                    }
                }
            }
        }
    }
    if rec.end == EndReason::Deadlock {
        out.violations
            .push(Violation::new("wedged", "nothing runnable before the session finished"));
    }
    out.nontrivial = !views.is_empty();
    out
}
