//! Per-property scenarios: a seeded generator producing explicit plans, and an oracle
//! over the recorded history.

pub mod c08;
pub mod c09;
pub mod c10;
pub mod c12;
pub mod c13;
pub mod c14;
pub mod c15;
pub mod c16;

use std::collections::BTreeMap;

use super::json::J;
use super::kernel::{Plan, RunRec};
use super::refmodel::Pos;

pub const W_ALLOW_TICKS: u64 = 20_000;
pub const I_ALLOW: u64 = 64;

#[derive(Clone, Debug, PartialEq)]
pub struct Violation {
    pub kind: String,
    pub detail: String,
}

impl Violation {
    pub fn new(kind: &str, detail: impl Into<String>) -> Self {
        Self {
            kind: kind.to_string(),
            detail: detail.into(),
        }
    }
    pub fn to_json(&self) -> J {
        J::obj().set("kind", self.kind.as_str()).set("detail", self.detail.as_str())
    }
}

#[derive(Clone, Debug, Default)]
pub struct Stats {
    pub c: BTreeMap<String, u64>,
    pub mx: BTreeMap<String, u64>,
}

impl Stats {
    pub fn inc(&mut self, k: &str) {
        *self.c.entry(k.to_string()).or_insert(0) += 1;
    }
    pub fn add(&mut self, k: &str, n: u64) {
        *self.c.entry(k.to_string()).or_insert(0) += n;
    }
    pub fn max(&mut self, k: &str, v: u64) {
        let e = self.mx.entry(k.to_string()).or_insert(0);
        if v > *e {
            *e = v;
        }
    }
    pub fn merge(&mut self, o: &Stats) {
        for (k, v) in &o.c {
            self.add(k, *v);
        }
        for (k, v) in &o.mx {
            self.max(k, *v);
        }
    }
    pub fn to_json(&self) -> J {
        let mut c = J::obj();
        for (k, v) in &self.c {
            c.put(k, *v);
        }
        let mut m = J::obj();
        for (k, v) in &self.mx {
            m.put(k, *v);
        }
        J::obj().set("count", c).set("max", m)
    }
}

#[derive(Clone, Debug, Default)]
pub struct Outcome {
    pub violations: Vec<Violation>,
    pub stats: Stats,
    /// A digest identifying the *case* (input + fault plan) for distinctness counting.
    pub nontrivial: bool,
}

#[derive(Clone, Copy, Debug)]
pub struct GenCtx {
    pub seed: u64,
    pub index: u64,
    pub thorough: bool,
}

/// One case = one or more plans, each executed from an empty cache.
pub fn generate(prop: &str, cx: &GenCtx) -> Vec<Plan> {
    match prop {
        "C08" => c08::generate(cx),
        "C09" => c09::generate(cx),
        "C10" => c10::generate(cx),
        "C12" => c12::generate(cx),
        "C13" => c13::generate(cx),
        "C14" => c14::generate(cx),
        "C15" => c15::generate(cx),
        "C16" => c16::generate(cx),
        _ => panic!("unknown property {prop}"),
    }
}

pub fn check(prop: &str, plans: &[Plan], recs: &[RunRec]) -> Outcome {
    match prop {
        "C08" => c08::check(plans, recs),
        "C09" => c09::check(plans, recs),
        "C10" => c10::check(plans, recs),
        "C12" => c12::check(plans, recs),
        "C13" => c13::check(plans, recs),
        "C14" => c14::check(plans, recs),
        "C15" => c15::check(plans, recs),
        "C16" => c16::check(plans, recs),
        _ => panic!("unknown property {prop}"),
    }
}

pub const ALL: [&str; 8] = ["C08", "C09", "C10", "C12", "C13", "C14", "C15", "C16"];

/// Is `bestmove <m> ...` a legal move in `pos`?
pub fn bestmove_legal(pos: &Pos, line: &str) -> bool {
    let mut it = line.split_whitespace();
    if it.next() != Some("bestmove") {
        return false;
    }
    match it.next() {
        Some(m) => pos.find_uci(m).is_some(),
        None => false,
    }
}

/// Generic fault/reach accounting common to every property.
pub fn common_stats(plan: &Plan, rec: &RunRec, s: &mut Stats) {
    use super::kernel::{Action, EvK, Term, LABEL_NAMES};
    s.inc("runs");
    s.add("steps", rec.steps);
    s.add("ticks", rec.ticks);
    s.add("sim_ns", rec.clock);
    s.add("switches", rec.switches);
    s.add("fault.stall", rec.stalls_fired);
    s.add("fault.clock_jump", rec.clock_jumps);
    s.inc(&format!("end.{:?}", rec.end));
    s.inc(&format!("machine.cost_ns.{}", plan.cost_ns));
    if plan.switch_ns > 0 {
        s.inc(&format!("fault.switch_latency_ns.{}", plan.switch_ns));
    }
    s.inc(&format!("policy.{}", super::gen::policy_name(&plan.policy)));
    let preempts: &[super::kernel::Preempt] = if plan.policy.is_some() { &rec.fired } else { &plan.preempts };
    for p in preempts {
        s.inc(&format!("fault.preempt@{}", p.label.name()));
    }
    s.add("fault.preempt", preempts.len() as u64);
    for e in &rec.events {
        match &e.k {
            EvK::Deliver { action, .. } => {
                if let Some(Action::Send { cuts, term, eintr, .. }) = plan.script.get(*action) {
                    if !cuts.is_empty() {
                        s.inc("fault.short_read");
                    }
                    if *term == Term::CrLf {
                        s.inc("fault.crlf");
                    }
                    if *term == Term::None {
                        s.inc("fault.no_final_newline");
                    }
                    if *eintr {
                        s.inc("fault.eintr");
                    }
                }
                s.inc("lines_delivered");
            }
            EvK::StdinEof => s.inc("fault.eof"),
            EvK::Panic(_) => s.inc("engine_panics"),
            EvK::MissingBestmove => s.inc("gui.gave_up_waiting_for_bestmove"),
            _ => {}
        }
    }
    for (t, row) in rec.label_counts.iter().enumerate() {
        for (l, n) in row.iter().enumerate() {
            if *n > 0 && t < 4 {
                s.add(&format!("yield.T{t}.{}", LABEL_NAMES[l]), *n);
            }
        }
    }
}

// ------------------------------------------------------------ go accounting

use super::gen::Limits;
use super::session::{GoRec, Hist, RefSession};

pub struct GoView<'a> {
    pub idx: usize,
    /// did the input thread come back for the next line after this go?
    pub line_returned: bool,
    pub go: &'a GoRec,
    pub text: &'a str,
    pub limits: Limits,
    /// Reference position in force when the go was delivered (None if the reference
    /// cannot know it, e.g. after a malformed position command).
    pub pos: Option<Pos>,
    /// All positions of the reference game up to that point.
    pub game: Vec<Pos>,
    pub deliver_clock: u64,
    pub deliver_ticks: u64,
    pub deliver_stalled: u64,
    pub deliver_step: u64,
    /// Had every earlier go's bestmove been emitted when this go was delivered?
    pub earlier_all_answered: bool,
}

pub fn go_views(h: &Hist) -> Vec<GoView<'_>> {
    let mut rs = RefSession::new();
    let mut out = vec![];
    let mut gi = 0;
    for (li, l) in h.lines.iter().enumerate() {
        if gi < h.gos.len() && h.gos[gi].line == li {
            let g = &h.gos[gi];
            let earlier_all_answered = h.gos[..gi].iter().all(|p| {
                p.refused || p.tid.is_none() || p.bestmoves.first().is_some_and(|b| b.ev < l.ev)
            });
            out.push(GoView {
                idx: gi,
                line_returned: l.t0_yields_back.is_some(),
                go: g,
                text: &l.text,
                limits: Limits::parse(&l.text).unwrap_or_default(),
                pos: if rs.known { Some(rs.current().clone()) } else { None },
                game: rs.game.clone(),
                deliver_clock: l.clock,
                deliver_ticks: l.ticks,
                deliver_stalled: l.stalled,
                deliver_step: l.step,
                earlier_all_answered,
            });
            gi += 1;
        } else {
            rs.apply(&l.text);
        }
    }
    out
}

/// Checks shared by C09/C10/C14: one legal bestmove per go that owes one.
/// `owed` decides whether a go without an answer is a violation.
pub fn check_answers(views: &[GoView<'_>], out: &mut Outcome, prop_tag: &str) {
    let _ = prop_tag;
    for v in views {
        let g = v.go;
        // The properties speak about positions that have a legal move. If the reference cannot
        // know the position (malformed position command) or it has none, nothing is owed.
        if v.pos.as_ref().is_none_or(|p| p.legal_moves().is_empty()) {
            out.stats.inc("go_in_unknown_or_terminal_position_skipped");
            continue;
        }
        if g.refused {
            if v.earlier_all_answered {
                out.violations.push(Violation::new(
                    "go_refused_after_bestmove",
                    format!(
                        "go #{} ({:?}) was refused with 'Search is already running' although the previous search's bestmove had already been printed",
                        v.idx, v.text
                    ),
                ));
            } else {
                out.stats.inc("go_refused_legitimately");
            }
            continue;
        }
        if g.tid.is_none() && !g.inline {
            if g.parse_error {
                // rejected by the parser with a diagnostic (malformed go) – not this oracle's business
                out.stats.inc("go_rejected_by_parser");
            } else if h_line_returned(v) {
                out.violations.push(Violation::new(
                    "go_ignored",
                    format!(
                        "go #{} ({:?}) was consumed without a search, a bestmove or a diagnostic",
                        v.idx, v.text
                    ),
                ));
            }
            continue;
        }
        if g.inline {
            out.stats.inc("reach.go_answered_by_input_thread");
        }
        if g.bestmoves.len() > 1 {
            out.violations.push(Violation::new(
                "multiple_bestmove",
                format!("go #{} ({:?}) got {} bestmove lines", v.idx, v.text, g.bestmoves.len()),
            ));
        }
        if let Some(b) = g.bestmoves.first() {
            match &v.pos {
                Some(p) => {
                    if bestmove_legal(p, &b.text) {
                        out.stats.inc("bestmove_legal");
                    } else {
                        out.violations.push(Violation::new(
                            "illegal_bestmove",
                            format!("go #{} ({:?}) in {} answered {:?}", v.idx, v.text, p.to_fen(), b.text),
                        ));
                    }
                }
                None => out.stats.inc("bestmove_unchecked_position_unknown"),
            }
            // nothing may be printed by that search after its bestmove
            if g.infos.iter().any(|i| i.ev > b.ev) {
                out.violations.push(Violation::new(
                    "output_after_bestmove",
                    format!("go #{} printed info after its bestmove", v.idx),
                ));
            }
        } else if g.thread_ended && g.tid.is_some() {
            let why = match &g.panic {
                Some(m) => format!("search thread panicked: {m}"),
                None => "search thread returned silently".to_string(),
            };
            let kind = match &g.panic {
                Some(m) => panic_kind("no_bestmove_search_panic", m),
                None => "no_bestmove".to_string(),
            };
            out.violations.push(Violation::new(
                &kind,
                format!(
                    "go #{} ({:?}) in {}: {}",
                    v.idx,
                    v.text,
                    v.pos.as_ref().map_or("?".into(), Pos::to_fen),
                    why
                ),
            ));
        }
    }
}

/// `kind@file.rs:line` so that different panics are different findings.
pub fn panic_kind(prefix: &str, msg: &str) -> String {
    match msg.rsplit_once(" @ ") {
        Some((_, loc)) if !loc.is_empty() => format!("{prefix}@{loc}"),
        _ => prefix.to_string(),
    }
}

fn h_line_returned(v: &GoView<'_>) -> bool {
    v.line_returned
}

/// Does a (shrunk) case still satisfy the assumptions under which the property is stated?
/// Every property assumes that FEN arguments are valid FEN.
pub fn input_ok(_prop: &str, plans: &[Plan]) -> bool {
    plans.iter().all(|p| {
        p.script.iter().all(|a| match a.line() {
            Some(l) => c15::fen_rule_ok(l),
            None => true,
        })
    })
}

/// The input thread must stay responsive: sitting in a join while other threads do tens of
/// thousands of ticks of work is a hang from the GUI's point of view.
pub fn check_input_blocked(rec: &RunRec, out: &mut Outcome) {
    if rec.end == super::kernel::EndReason::ExitOverdue {
        let quit = rec.events.iter().any(
            |e| matches!(&e.k, super::kernel::EvK::Deliver { line, .. } if line.split_whitespace().next() == Some("quit")),
        );
        out.violations.push(Violation::new(
            "exit_overdue",
            format!(
                "{} was seen but the command loop was still blocked after other threads did {} more work ticks",
                if quit { "quit" } else { "end-of-input" },
                super::kernel::EXIT_ALLOW_TICKS
            ),
        ));
    }
    if rec.end == super::kernel::EndReason::InputBlocked {
        out.violations.push(Violation::new(
            "input_thread_blocked",
            format!(
                "the input thread was still blocked in a join after other threads did {} more work ticks",
                super::kernel::EXIT_ALLOW_TICKS
            ),
        ));
    }
}

/// A panic on the input thread ends the process: a violation whatever the property
/// (used by the properties whose own oracle does not look at the input thread).
pub fn check_input_panic(rec: &RunRec, out: &mut Outcome) {
    for e in &rec.events {
        if let (0, super::kernel::EvK::Panic(msg)) = (e.tid, &e.k) {
            out.violations.push(Violation::new(&panic_kind("input_thread_panic", msg), msg.clone()));
        }
    }
}
