//! stub
use super::super::kernel::{Plan, RunRec};
use super::Outcome;
pub fn generate(_cx: &super::GenCtx) -> Vec<Plan> { vec![] }
pub fn check(_plans: &[Plan], _recs: &[RunRec]) -> Outcome { Outcome::default() }
