//! C12 — with caching on, short forced mates are found and avoidable ones avoided.
//!
//! The cache is process-wide state that survives from search to search; the property is
//! about histories of completed searches within one session. Nothing is interrupted here
//! (interrupted predecessors are C13's business).

use super::super::gen;
use super::super::json::J;
use super::super::kernel::{Action, EndReason, Plan, Policy, RunRec};
use super::super::refmodel::{playout, ptype, Pos, Solver, B, BLACK, EMPTY, K, N, P, Q, R};
use super::super::rng::Rng;
use super::super::session::history;
use super::c14::parse_info;
use super::{common_stats, go_views, Outcome, Violation};

#[derive(Clone, Copy, PartialEq, Eq, Debug)]
pub struct Class {
    pub m1: bool,
    pub m2: bool,
    pub threat: bool,
}

pub fn classify(pos: &Pos) -> Class {
    let m1 = !Solver::mating_moves(pos).is_empty();
    let m2 = !m1 && Solver::new(400_000).mate_in(pos, 2) == Some(true);
    let mut bad = 0;
    let mut safe = 0;
    for m in pos.legal_moves() {
        let p2 = pos.make(m);
        if Solver::mating_moves(&p2).is_empty() {
            safe += 1;
        } else {
            bad += 1;
        }
    }
    Class {
        m1,
        m2,
        threat: bad > 0 && safe > 0,
    }
}

fn attacker_ending(rng: &mut Rng) -> Option<Pos> {
    let sets: &[&[u8]] = &[&[Q], &[R], &[R, R], &[Q, Q], &[Q, R], &[B, B], &[B, N], &[Q, P], &[R, P], &[R, N], &[Q, B]];
    let set = *rng.pick(sets);
    let attacker_black = rng.chance(1, 2);
    let ac = if attacker_black { BLACK } else { 0 };
    let mut sqs = [EMPTY; 64];
    let mut put = |sqs: &mut [u8; 64], p: u8, rng: &mut Rng| {
        for _ in 0..100 {
            let s = rng.usize_below(64);
            if sqs[s] != EMPTY {
                continue;
            }
            if ptype(p) == P && !(8..56).contains(&s) {
                continue;
            }
            sqs[s] = p;
            return;
        }
    };
    put(&mut sqs, K | ac, rng);
    // defender king: often near an edge, where mates live
    if rng.chance(2, 3) {
        let edge: Vec<usize> = (0..64).filter(|s| s % 8 == 0 || s % 8 == 7 || *s < 8 || *s >= 56).collect();
        for _ in 0..50 {
            let s = *rng.pick(&edge);
            if sqs[s] == EMPTY {
                sqs[s] = K | (ac ^ BLACK);
                break;
            }
        }
    }
    if !sqs.contains(&(K | (ac ^ BLACK))) {
        put(&mut sqs, K | (ac ^ BLACK), rng);
    }
    for &p in set {
        put(&mut sqs, p | ac, rng);
    }
    for _ in 0..rng.below(3) {
        let c = if rng.chance(1, 2) { 0 } else { BLACK };
        put(&mut sqs, P | c, rng);
    }
    if rng.chance(1, 4) {
        let t = *rng.pick(&[N, B, R]);
        put(&mut sqs, t | (ac ^ BLACK), rng);
    }
    // "mate now or never": the defender has a pawn one step from queening and a loose piece
    // to be grabbed, so a move that wins material instead of mating throws the win away
    if rng.chance(1, 3) {
        let rank = if attacker_black { 6 } else { 1 }; // the defender is the other colour
        for _ in 0..20 {
            let s = rank * 8 + rng.usize_below(8);
            if sqs[s] == EMPTY {
                sqs[s] = P | (ac ^ BLACK);
                break;
            }
        }
        let t = *rng.pick(&[N, B, R]);
        put(&mut sqs, t | (ac ^ BLACK), rng);
    }
    let pos = Pos {
        sq: sqs,
        white: rng.chance(1, 2),
        castle: [false; 4],
        ep: None,
        hmc: rng.below(21) as u32,
        fmn: rng.range(1, 90) as u32,
    };
    if pos.is_sane() && !pos.legal_moves().is_empty() {
        Some(pos)
    } else {
        None
    }
}

/// Minimal-material mates: a king in (or next to) a corner, hemmed in by its own piece,
/// with only a minor piece or two, a rook or a pawn on the board.
fn cornered_king(rng: &mut Rng) -> Option<Pos> {
    let attacker_black = rng.chance(1, 2);
    let ac = if attacker_black { BLACK } else { 0 };
    let dc = ac ^ BLACK;
    let mut sqs = [EMPTY; 64];
    let corner = *rng.pick(&[0usize, 7, 56, 63]);
    let (cf, cr) = ((corner % 8) as i32, (corner / 8) as i32);
    let near = |df: i32, dr: i32| -> Option<usize> {
        let (f, r) = (cf + df, cr + dr);
        if (0..8).contains(&f) && (0..8).contains(&r) {
            Some((r * 8 + f) as usize)
        } else {
            None
        }
    };
    let dk = if rng.chance(2, 3) {
        corner
    } else {
        near(*rng.pick(&[-1, 0, 1]), *rng.pick(&[-1, 0, 1])).unwrap_or(corner)
    };
    sqs[dk] = K | dc;
    // defender's own blockers next to the king
    for _ in 0..rng.range(0, 2) {
        if let Some(s) = near(*rng.pick(&[-1, 0, 1]), *rng.pick(&[-1, 0, 1])) {
            if sqs[s] == EMPTY {
                let t = *rng.pick(&[B, N, P, R, B, N]);
                if t != P || (8..56).contains(&s) {
                    sqs[s] = t | dc;
                }
            }
        }
    }
    // attacker king close by
    for _ in 0..20 {
        if let Some(s) = near(*rng.pick(&[-2, -1, 0, 1, 2]), *rng.pick(&[-2, -1, 0, 1, 2])) {
            if sqs[s] == EMPTY {
                sqs[s] = K | ac;
                break;
            }
        }
    }
    if !sqs.contains(&(K | ac)) {
        return None;
    }
    for _ in 0..rng.range(1, 2) {
        let t = *rng.pick(&[B, N, B, N, R, P]);
        for _ in 0..20 {
            let s = rng.usize_below(64);
            if sqs[s] == EMPTY && (t != P || (8..56).contains(&s)) {
                sqs[s] = t | ac;
                break;
            }
        }
    }
    let pos = Pos {
        sq: sqs,
        white: rng.chance(1, 2),
        castle: [false; 4],
        ep: None,
        hmc: rng.below(21) as u32,
        fmn: rng.range(1, 90) as u32,
    };
    if pos.is_sane() && !pos.legal_moves().is_empty() {
        Some(pos)
    } else {
        None
    }
}

/// Mates (or mate threats) delivered by a rare kind of move: an under-promotion. A pawn
/// on the seventh next to a king hemmed in on the back rank; kept only if an
/// under-promotion actually mates (now, or as the opponent's threat after some move).
fn underpromotion_mate(rng: &mut Rng) -> Option<Pos> {
    for _ in 0..1500 {
        let attacker_white = rng.chance(1, 2);
        let (ac, dc) = if attacker_white { (0, BLACK) } else { (BLACK, 0) };
        let (back, seventh) = if attacker_white { (7i32, 6i32) } else { (0i32, 1i32) };
        let mut sqs = [EMPTY; 64];
        let kf = rng.below(8) as i32;
        let kr = if rng.chance(2, 3) { back } else { seventh };
        sqs[(kr * 8 + kf) as usize] = K | dc;
        for _ in 0..rng.range(2, 5) {
            let f = kf + rng.below(5) as i32 - 2;
            let r = if rng.chance(1, 2) { back } else { seventh };
            if !(0..8).contains(&f) {
                continue;
            }
            let s = (r * 8 + f) as usize;
            if sqs[s] == EMPTY {
                let t = *rng.pick(&[N, B, R, P, P, B, N]);
                if t != P || r == seventh {
                    sqs[s] = t | dc;
                }
            }
        }
        let pf = kf + rng.below(5) as i32 - 2;
        if !(0..8).contains(&pf) || sqs[(seventh * 8 + pf) as usize] != EMPTY {
            continue;
        }
        sqs[(seventh * 8 + pf) as usize] = P | ac;
        for _ in 0..30 {
            let s = rng.usize_below(64);
            if sqs[s] == EMPTY {
                sqs[s] = K | ac;
                break;
            }
        }
        for _ in 0..rng.below(3) {
            let s = rng.usize_below(64);
            if sqs[s] == EMPTY {
                sqs[s] = *rng.pick(&[N, B, R, Q]) | ac;
            }
        }
        let attacker_to_move = rng.chance(1, 2);
        let pos = Pos {
            sq: sqs,
            white: attacker_white == attacker_to_move,
            castle: [false; 4],
            ep: None,
            hmc: rng.below(21) as u32,
            fmn: rng.range(1, 90) as u32,
        };
        if !pos.is_sane() || pos.legal_moves().is_empty() {
            continue;
        }
        // half of the time any promotion that mates will do (queen promotions included): what
        // matters then is that several promotions to one square compete in the move ordering
        let any_promo = rng.chance(1, 2);
        let under = |m: &super::super::refmodel::Mv| {
            m.promo == N || m.promo == B || m.promo == R || (any_promo && m.promo == Q)
        };
        if attacker_to_move {
            if Solver::mating_moves(&pos).iter().any(under) {
                return Some(pos);
            }
        } else {
            for m in pos.legal_moves() {
                if Solver::mating_moves(&pos.make(m)).iter().any(under) {
                    return Some(pos);
                }
            }
        }
    }
    None
}

/// A rare kind of check evasion: a double pawn push gives a check that can only be answered
/// by capturing the pawn en passant - in a position that also has a real mate in one. An
/// engine that forgets the en-passant evasion sees a second, false, mate.
fn en_passant_only_evasion(rng: &mut Rng) -> Option<Pos> {
    for _ in 0..4000 {
        let white_attacks = rng.chance(1, 2);
        let (ac, dc) = if white_attacks { (0, BLACK) } else { (BLACK, 0) };
        // ranks from the attacker's point of view
        let r = |n: i32| if white_attacks { n } else { 7 - n };
        let pf = rng.below(8) as i32;
        let kf = pf + if rng.chance(1, 2) { 1 } else { -1 };
        let cf = pf + if rng.chance(1, 2) { 1 } else { -1 };
        if !(0..8).contains(&kf) || !(0..8).contains(&cf) {
            continue;
        }
        let mut sqs = [EMPTY; 64];
        let at = |f: i32, rk: i32| (r(rk) * 8 + f) as usize;
        sqs[at(pf, 1)] = P | ac; // the pawn that will push two squares
        sqs[at(kf, 4)] = K | dc; // the king it will check
        if sqs[at(cf, 3)] != EMPTY {
            continue;
        }
        sqs[at(cf, 3)] = P | dc; // the pawn that can take en passant
        let mut put = |sqs: &mut [u8; 64], p: u8, rng: &mut Rng| {
            for _ in 0..40 {
                let s = rng.usize_below(64);
                if sqs[s] != EMPTY || s == at(pf, 2) || s == at(pf, 3) {
                    continue;
                }
                if ptype(p) == P && !(8..56).contains(&s) {
                    continue;
                }
                sqs[s] = p;
                return;
            }
        };
        put(&mut sqs, K | ac, rng);
        for _ in 0..rng.range(1, 3) {
            put(&mut sqs, *rng.pick(&[N, B, R, Q, N]) | ac, rng);
        }
        for _ in 0..rng.range(1, 4) {
            put(&mut sqs, *rng.pick(&[P, P, P, N, B]) | dc, rng);
        }
        let pos = Pos {
            sq: sqs,
            white: white_attacks,
            castle: [false; 4],
            ep: None,
            hmc: rng.below(21) as u32,
            fmn: rng.range(1, 90) as u32,
        };
        if !pos.is_sane() || Solver::mating_moves(&pos).is_empty() {
            continue;
        }
        // the double push must be legal, give check, and leave en passant as the only answer
        let push = pos.legal_moves().into_iter().find(|m| m.double && m.from as usize == at(pf, 1));
        let Some(push) = push else { continue };
        let after = pos.make(push);
        if !after.in_check(after.white) {
            continue;
        }
        let replies = after.legal_moves();
        if !replies.is_empty() && replies.iter().all(|m| m.ep) {
            return Some(pos);
        }
    }
    None
}

/// "for all positions" includes those with far more moves than any game has: the side to move
/// owns eight to eleven queens and rooks (more than 128 pseudo-legal moves), the defender a few
/// pieces, and only a few of all those moves mate at once - or, as a threat, only a few avoid
/// being mated. A move list that is capped, a buffer that is too short or an ordering that
/// loses its tail shows here and nowhere else (seeded defect C12-q).
fn crowded_mate(rng: &mut Rng) -> Option<Pos> {
    for _ in 0..3000 {
        let mut sqs = [EMPTY; 64];
        let white = rng.chance(1, 2);
        let (me, other) = if white { (0, BLACK) } else { (BLACK, 0) };
        let mut free: Vec<usize> = (0..64).collect();
        rng.shuffle(&mut free);
        let mut take = || free.pop().unwrap();
        sqs[take()] = K | me;
        sqs[take()] = K | other;
        for _ in 0..rng.range(8, 12) {
            sqs[take()] = if rng.chance(4, 5) { Q | me } else { R | me };
        }
        for _ in 0..rng.below(5) {
            let s = take();
            let t = *rng.pick(&[Q, R, B, N, P, P]);
            if t == P && !(8..56).contains(&s) {
                continue;
            }
            sqs[s] = t | other;
        }
        let pos = Pos {
            sq: sqs,
            white,
            castle: [false; 4],
            ep: None,
            hmc: rng.below(21) as u32,
            fmn: rng.range(1, 90) as u32,
        };
        if !pos.is_sane() || pos.pseudo_moves().len() <= 128 {
            continue;
        }
        let legal = pos.legal_moves().len();
        if legal == 0 {
            continue;
        }
        let mates = Solver::mating_moves(&pos).len();
        if mates >= 1 && mates <= 2 {
            return Some(pos);
        }
    }
    None
}

pub fn candidate(rng: &mut Rng) -> Option<Pos> {
    match rng.below(15) {
        13 => en_passant_only_evasion(rng),
        12 | 14 => underpromotion_mate(rng),
        10..=11 => cornered_king(rng),
        0..=4 => attacker_ending(rng),
        5..=7 => {
            let (_, ps) = playout(&Pos::start(), rng.range(16, 90) as usize, rng, true);
            let mut p = ps.last().unwrap().clone();
            p.hmc = p.hmc.min(20);
            Some(p)
        }
        _ => {
            let base = Pos::from_fen(rng.pick(gen::BENCH_FENS)).unwrap();
            let (_, ps) = playout(&base, rng.below(10) as usize, rng, true);
            let mut p = ps.last().unwrap().clone();
            p.hmc = p.hmc.min(20);
            Some(p)
        }
    }
}

pub fn generate(cx: &super::GenCtx) -> Vec<Plan> {
    let seed = cx.seed;
    let mut rng = Rng::new(seed);
    let mut found = None;
    // one case in twelve: a crowded board (kept apart from the draw below so that the other
    // cases of a seed stay what they were)
    let crowded = cx.index % 12 == 7;
    for _ in 0..400 {
        let c = if crowded { crowded_mate(&mut rng) } else { candidate(&mut rng) };
        let Some(p) = c else { continue };
        if p.legal_moves().is_empty() {
            continue;
        }
        let c = classify(&p);
        if c.m1 || c.m2 || c.threat {
            found = Some((p, c));
            break;
        }
    }
    let Some((pos, class)) = found else { return vec![] };
    let sparse = pos.piece_count() <= 8;
    let mut plan = Plan::new("C12", seed);
    let mut s = vec![Action::send(format!("position fen {}", pos.to_fen()))];
    // earlier completed searches of the same position at other depths, in random order
    let prefix = rng.below(4);
    for _ in 0..prefix {
        let maxd = if sparse {
            5
        } else if pos.piece_count() <= 22 {
            4
        } else {
            3
        };
        let d = rng.range(1, maxd);
        s.push(Action::send(format!("go depth {d}")));
        s.push(Action::WaitBestmove);
        s.push(Action::WaitIdle);
    }
    // depth 4 on a crowded board can cost millions of nodes (unbounded quiescence): depth 3 only there
    let mut finals = if pos.piece_count() <= 22 { vec![3u64, 4] } else { vec![3u64] };
    if rng.chance(1, 2) {
        finals.reverse();
    }
    for d in finals {
        s.push(Action::send(format!("go depth {d}")));
        s.push(Action::WaitBestmove);
        s.push(Action::WaitIdle);
    }
    // The clauses hold "once a 3-ply iteration has completed" - also for a search that is cut
    // short later: one or two searches interrupted by a node budget or a stop at a random point
    for _ in 0..rng.range(0, 2) {
        let hi = 60_000.0f64;
        let n = ((hi.ln() - 150.0f64.ln()) * rng.f64() + 150.0f64.ln()).exp() as u64;
        if rng.chance(2, 3) {
            s.push(Action::send(format!("go depth 8 nodes {n}")));
        } else {
            s.push(Action::send("go infinite"));
            s.push(Action::DelaySteps(2 * n));
            s.push(Action::send("stop"));
        }
        s.push(Action::WaitBestmove);
        s.push(Action::WaitIdle);
    }
    s.push(Action::send("quit"));
    plan.script = s;
    plan.cost_ns = *rng.pick(&[200, 1000, 5000]);
    plan.policy = Some(Policy::Quiet);
    plan.step_cap = 12_000_000;
    plan.tick_cap = 40_000_000;
    plan.params = J::obj()
        .set("fen", pos.to_fen())
        .set("m1", class.m1)
        .set("m2", class.m2)
        .set("threat", class.threat)
        .set("prefix_searches", prefix);
    vec![plan]
}

fn insufficient(pos: &Pos, white: bool) -> bool {
    // Can `white` side still possibly mate? Only K, or K + one minor and no pawns: no.
    let side = if white { 0 } else { BLACK };
    let mut minors = 0;
    for &p in &pos.sq {
        if p == EMPTY || (p & BLACK) != side {
            continue;
        }
        match ptype(p) {
            K => {}
            N | B => minors += 1,
            _ => return false,
        }
    }
    minors <= 1
}

/// `pos` has a forced mate in two for the side to move; `m` is the move chosen. Is a forced mate
/// still there against every defence? Looked for within four further attacker moves. "lost" is
/// reported only when the search for it was exhaustive (or the game is drawn at once, or the
/// mating material is gone); "unproven" when the budget ran out.
pub fn forced_mate_verdict(pos: &Pos, m: super::super::refmodel::Mv) -> (&'static str, String) {
    let after = pos.make(m);
    if after.is_checkmate() {
        return ("kept", String::new());
    }
    if after.is_stalemate() {
        return ("lost", "which stalemates although a mate in two exists".into());
    }
    let mut verdict = "kept";
    let mut why = String::new();
    let mut budget = Solver::new(25_000_000);
    'replies: for r in after.legal_moves() {
        let p2 = after.make(r);
        let defender_bare_now = p2
            .sq
            .iter()
            .filter(|&&p| p != EMPTY && ((p & BLACK == 0) != pos.white))
            .all(|&p| ptype(p) == K);
        // K (+ one minor) against a BARE king cannot mate at all. (Against a king with
        // pieces of its own it can - smothered corners - so that case goes to the solver.)
        if defender_bare_now && insufficient(&p2, pos.white) {
            verdict = "lost";
            why = format!("after {} the attacker has no mating material left against a bare king", r.uci());
            break;
        }
        let mut settled = None;
        for n in 1..=4 {
            match budget.mate_in(&p2, n) {
                Some(true) => {
                    settled = Some(true);
                    break;
                }
                Some(false) => settled = Some(false),
                None => {
                    settled = None;
                    break;
                }
            }
        }
        match settled {
            Some(true) => {}
            Some(false) => {
                let defender_bare = p2
                    .sq
                    .iter()
                    .filter(|&&p| p != EMPTY && ((p & BLACK == 0) != pos.white))
                    .all(|&p| ptype(p) == K);
                if defender_bare && !insufficient(&p2, pos.white) {
                    // bare king: mating material kept is the textbook certificate
                    continue;
                }
                verdict = "lost";
                why = format!(
                    "after the reply {} exhaustive analysis finds no mate within four more moves (a mate in two existed before the move)",
                    r.uci()
                );
                break 'replies;
            }
            None => {
                if verdict == "kept" {
                    verdict = "unproven";
                }
            }
        }
    }
    (verdict, why)
}

pub fn check(plans: &[Plan], recs: &[RunRec]) -> Outcome {
    let (plan, rec) = (&plans[0], &recs[0]);
    let mut out = Outcome::default();
    common_stats(plan, rec, &mut out.stats);
    super::check_input_blocked(rec, &mut out);
    super::check_input_panic(rec, &mut out);
    let h = history(rec);
    let views = go_views(&h);
    let Ok(pos) = Pos::from_fen(&plan.params.s("fen")) else {
        return out;
    };
    // Re-derive the class from the rules (never trust the file).
    let class = classify(&pos);
    if class.m1 {
        out.stats.inc("cases.mate_in_1");
    }
    if class.m2 {
        out.stats.inc("cases.mate_in_2");
    }
    if class.threat {
        out.stats.inc("cases.avoidable_mate_threat");
    }
    if pos.pseudo_moves().len() > 128 {
        out.stats.inc("cases.more_than_128_pseudo_legal_moves");
    }
    let mut earlier = 0;
    let mut completed3_before = false;
    for v in &views {
        let g = v.go;
        if g.tid.is_none() {
            continue;
        }
        if v.pos.as_ref() != Some(&pos) {
            continue; // not a search of the case position (shrunk scripts)
        }
        let completed3 = g
            .infos
            .iter()
            .filter_map(|i| parse_info(&i.text).ok())
            .any(|i| i.depth == 3);
        let Some(b) = g.bestmoves.first() else {
            if g.thread_ended {
                out.violations.push(Violation::new(
                    "no_bestmove",
                    format!("go #{} ({:?}) in {}", v.idx, v.text, pos.to_fen()),
                ));
            }
            continue;
        };
        if v.limits.nodes.is_some() || v.limits.infinite {
            out.stats.inc("reach.interrupted_search_after_depth3");
        }
        let asked = if v.limits.nodes.is_some() || v.limits.infinite {
            0 // an interrupted search is judged only if it reported depth 3 itself
        } else {
            v.limits.depth.unwrap_or(0)
        };
        if completed3 {
            completed3_before = true;
        } else if asked >= 3 && completed3_before {
            // asked for at least three plies, on a cache that already holds a completed
            // 3-ply search of this very position: the clause applies to this answer too
            out.stats.inc("reach.depth3_search_answered_from_cache_without_iterating");
        } else {
            out.stats.inc("searches_vacuous_no_depth3_iteration");
            earlier += 1;
            continue;
        }
        out.stats.inc("searches_checked");
        if earlier > 0 {
            out.stats.inc("reach.search_on_cache_left_by_earlier_searches");
        } else {
            out.stats.inc("reach.search_on_empty_cache");
        }
        earlier += 1;
        let mv = b.text.split_whitespace().nth(1).unwrap_or("");
        let Some(m) = pos.find_uci(mv) else {
            out.violations.push(Violation::new(
                "illegal_bestmove",
                format!("go #{} ({:?}) in {} answered {:?}", v.idx, v.text, pos.to_fen(), b.text),
            ));
            continue;
        };
        let after = pos.make(m);
        let ctx = format!(
            "go #{} ({:?}) in {} after {} earlier search(es) in the session chose {mv}",
            v.idx,
            v.text,
            pos.to_fen(),
            earlier - 1
        );
        if class.m1 {
            if Solver::mating_moves(&pos).iter().any(|m| m.promo != 0 && m.promo != Q) {
                out.stats.inc("reach.mate_by_underpromotion_available");
            }
            if pos.legal_moves().iter().any(|m| {
                let a = pos.make(*m);
                m.double && a.in_check(a.white) && !a.legal_moves().is_empty() && a.legal_moves().iter().all(|x| x.ep)
            }) {
                out.stats.inc("reach.check_answerable_only_by_en_passant");
            }
            if after.is_checkmate() {
                out.stats.inc("ok.mate_in_1_played");
            } else {
                out.violations.push(Violation::new(
                    "mate_in_1_missed",
                    format!("{ctx}, which is not checkmate; mating moves: {:?}",
                        Solver::mating_moves(&pos).iter().map(|m| m.uci()).collect::<Vec<_>>()),
                ));
            }
        }
        if class.threat {
            let mates = Solver::mating_moves(&after);
            if mates.is_empty() {
                out.stats.inc("ok.mate_threat_avoided");
            } else {
                out.violations.push(Violation::new(
                    "walked_into_mate_in_1",
                    format!("{ctx}, after which {} mates at once although other moves avoid it", mates[0].uci()),
                ));
            }
        }
        if class.m2 {
            let (verdict, why) = forced_mate_verdict(&pos, m);
            match verdict {
                "kept" => out.stats.inc("ok.mate_kept"),
                "unproven" => out.stats.inc("inconclusive.mate_in_2_followup_not_settled"),
                _ => out.violations.push(Violation::new(
                    "forced_mate_thrown_away",
                    format!("{ctx}; {why}"),
                )),
            }
        }
    }
    if rec.end == EndReason::Deadlock {
        out.violations
            .push(Violation::new("wedged", "nothing runnable before the session finished"));
    }
    if matches!(rec.end, EndReason::StepCap | EndReason::TickCap) {
        out.stats.inc("inconclusive.cap");
    }
    out.nontrivial = views.iter().any(|v| v.go.tid.is_some());
    out
}
