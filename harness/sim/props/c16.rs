//! C16 — fixed-depth search from a fresh cache is deterministic.
//!
//! One case = one (position, depth) searched under several environments that differ in
//! everything the result must not depend on: machine speed, stalls, thread schedule,
//! concurrent traffic on the input thread, what the process did before (an unrelated
//! search, then the cache clear every run starts with). The search result (bestmove and
//! every iteration's depth / seldepth / nodes / score / pv) must be identical in all.

use super::super::gen;
use super::super::json::J;
use super::super::kernel::{Action, EndReason, Plan, Policy, RunRec};
use super::super::rng::Rng;
use super::super::session::history;
use super::c14::parse_info;
use super::{common_stats, go_views, Outcome, Violation};

/// Bench positions of middling size, searched one ply deeper than bench does: the
/// "large search" family used by the cross-process stage (case index >= LARGE_BASE).
pub const LARGE_BASE: u64 = 1_000_000;
pub const LARGE: [usize; 6] = [43, 47, 22, 12, 20, 8];

pub fn generate(cx: &super::GenCtx) -> Vec<Plan> {
    let seed = cx.seed;
    let mut rng = Rng::new(seed);
    if cx.index >= LARGE_BASE {
        let fen = gen::BENCH_FENS[LARGE[((cx.index - LARGE_BASE) % 6) as usize]];
        let mut p = Plan::new("C16", seed);
        p.script = vec![
            Action::send(format!("position fen {fen}")),
            Action::send("go depth 7"),
            Action::WaitBestmove,
            Action::WaitIdle,
            Action::send("quit"),
        ];
        p.cost_ns = 1000;
        p.policy = Some(Policy::Quiet);
        p.step_cap = 200_000_000;
        p.tick_cap = 800_000_000;
        p.params = J::obj().set("noise", false).set("depth", 7u64).set("large", true);
        // the same search on a slower machine that also stalls: anything keyed to elapsed
        // time fires at a different node
        let mut q = p.clone();
        q.cost_ns = 7000;
        q.switch_ns = 50_000;
        q.stalls = vec![(rng.range(1000, 400_000), 700_000_000), (rng.range(400_000, 3_000_000), 1_300_000_000)];
        // and once more under a seeded thread schedule with preemptions: if the search ever gets
        // company (a helper thread, a timer), who runs first must not matter either
        let mut r = p.clone();
        gen::machine(&mut r, &mut rng, 2_000_000, true);
        gen::schedule(&mut r, &mut rng, 2_000_000);
        return vec![p, q, r];
    }
    let mut spec = gen::random_posspec(&mut rng);
    if rng.chance(1, 6) {
        // a long game behind the position: more than a hundred earlier positions to remember
        let (ms, ps) = super::super::refmodel::playout(
            &super::super::refmodel::Pos::start(),
            rng.range(100, 160) as usize,
            &mut rng,
            false,
        );
        if ms.len() >= 100 && !ps.last().unwrap().legal_moves().is_empty() {
            spec = gen::PosSpec {
                cmd: format!("position startpos moves {}", gen::moves_str(&ms)),
                dense: ps.last().unwrap().piece_count() > 12,
                game: ps,
            };
        }
    }
    let d = if spec.dense {
        // depth 4 only on positions that are not too crowded (quiescence can explode)
        if spec.pos().piece_count() <= 22 {
            *rng.pick(&[1u64, 2, 2, 3, 3, 3, 4])
        } else {
            *rng.pick(&[1u64, 2, 2, 3, 3, 3])
        }
    } else {
        rng.range(1, 5)
    };
    // "fixed depth" is not only depth 1 to 4: one case in thirty-two is a tiny position (kings and
    // one or two pieces) searched 6 or 7 plies deep (in four environments
    // instead of eight), so that whatever an engine does only from
    // some depth on (seeded defect C16-o: a helper thread from depth 7) runs under all the
    // environments. Own random stream: the other cases of a seed stay what they were.
    let mut deep = None;
    if cx.index % 32 == 9 {
        let mut r2 = Rng::new(seed ^ 0xD1_6D16);
        use super::super::refmodel::{Pos, B, BLACK, EMPTY, K, N, P, Q, R};
        for _ in 0..200 {
            let mut sqs = [EMPTY; 64];
            let mut free: Vec<usize> = (0..64).collect();
            r2.shuffle(&mut free);
            sqs[free.pop().unwrap()] = K;
            sqs[free.pop().unwrap()] = K | BLACK;
            for _ in 0..r2.range(1, 3) {
                let t = *r2.pick(&[P, P, P, N, B, R, Q]);
                let sq = free.pop().unwrap();
                if t == P && !(8..56).contains(&sq) {
                    continue;
                }
                sqs[sq] = t | if r2.chance(1, 2) { 0 } else { BLACK };
            }
            let pos = Pos { sq: sqs, white: r2.chance(1, 2), castle: [false; 4], ep: None, hmc: r2.below(20) as u32, fmn: r2.range(1, 90) as u32 };
            if pos.is_sane() && !pos.legal_moves().is_empty() {
                deep = Some((pos, *r2.pick(&[6u64, 7, 7])));
                break;
            }
        }
    }
    let deep_case = deep.is_some();
    let d = if let Some((pos, dd)) = deep {
        spec = gen::PosSpec { cmd: format!("position fen {}", pos.to_fen()), game: vec![pos], dense: false };
        dd
    } else {
        d
    };
    let envs = if deep_case { 4 } else if cx.thorough { 12 } else { 8 };
    let mut plans = vec![];
    for e in 0..envs {
        // noise: an unrelated search before some environments (its result is ignored)
        if e > 0 && rng.chance(1, 3) {
            let other = gen::random_posspec(&mut rng);
            let mut p = Plan::new("C16", seed);
            p.script = vec![
                Action::send(other.cmd.clone()),
                Action::send(format!("go depth {} nodes {}", rng.range(1, 3), rng.range(50, 3000))),
                Action::WaitBestmove,
                Action::WaitIdle,
                Action::send("quit"),
            ];
            p.policy = Some(Policy::Quiet);
            p.params = J::obj().set("noise", true);
            plans.push(p);
        }
        let mut p = Plan::new("C16", seed);
        let mut s = vec![];
        if rng.chance(1, 4) {
            s.push(Action::send("ucinewgame"));
        }
        if rng.chance(1, 4) {
            s.push(Action::send("isready"));
        }
        s.push(Action::send(spec.cmd.clone()));
        s.push(Action::send(format!("go depth {d}")));
        if e > 0 && rng.chance(1, 2) {
            // traffic on the input thread while the search runs
            for _ in 0..rng.range(1, 3) {
                s.push(Action::DelaySteps(rng.below(3000)));
                match rng.below(3) {
                    0 => s.push(Action::send("isready")),
                    1 => s.push(Action::send("position startpos moves e2e4 e7e5")),
                    _ => s.push(Action::send("setoption name Hash value 1")),
                }
            }
        }
        s.push(Action::WaitBestmove);
        s.push(Action::WaitIdle);
        s.push(Action::send("quit"));
        if e > 0 {
            gen::decorate_all(&mut s, &mut rng, 1);
        }
        p.script = s;
        p.step_cap = 20_000_000;
        p.tick_cap = 60_000_000;
        if e == 0 {
            p.cost_ns = 1000;
            p.policy = Some(Policy::Quiet);
        } else {
            gen::machine(&mut p, &mut rng, 50_000, true);
            gen::schedule(&mut p, &mut rng, 20_000);
        }
        p.params = J::obj().set("noise", false).set("depth", d);
        plans.push(p);
    }
    plans
}

/// The part of a search's output that must not depend on the environment.
pub fn result_digest(infos: &[String], bestmove: Option<&str>) -> String {
    let mut parts = vec![];
    for i in infos {
        match parse_info(i) {
            Ok(p) => parts.push(format!(
                "d{} sd{:?} n{} cp{:?} m{:?} pv[{}]",
                p.depth,
                p.seldepth,
                p.nodes,
                p.cp,
                p.mate,
                p.pv.join(" ")
            )),
            Err(_) => parts.push(format!("raw:{i}")),
        }
    }
    parts.push(format!("best:{}", bestmove.unwrap_or("<none>")));
    parts.join(" | ")
}

pub fn check(plans: &[Plan], recs: &[RunRec]) -> Outcome {
    let mut out = Outcome::default();
    let mut digests: Vec<(usize, String)> = vec![];
    let mut keys: Vec<String> = vec![];
    let mut capped = false;
    for (pi, (plan, rec)) in plans.iter().zip(recs).enumerate() {
        common_stats(plan, rec, &mut out.stats);
        super::check_input_blocked(rec, &mut out);
        super::check_input_panic(rec, &mut out);
        if plan.params.b("noise") {
            out.stats.inc("noise_runs");
            continue;
        }
        if matches!(rec.end, EndReason::StepCap | EndReason::TickCap) {
            capped = true;
            continue;
        }
        let h = history(rec);
        let views = go_views(&h);
        let Some(v) = views.iter().find(|v| v.go.tid.is_some()) else { continue };
        let infos: Vec<String> = v.go.infos.iter().map(|i| i.text.clone()).collect();
        let best = v.go.bestmoves.first().map(|b| b.text.as_str());
        if best.is_none() && !v.go.thread_ended {
            capped = true;
            continue;
        }
        // only searches of the same position with the same go line are comparable
        let key = format!(
            "{} :: {}",
            v.pos.as_ref().map_or("?".to_string(), super::super::refmodel::Pos::to_fen),
            v.text
        );
        keys.push(key);
        digests.push((pi, result_digest(&infos, best)));
        out.stats.inc("environments");
        if v.limits.depth.is_some_and(|d| d >= 7) {
            out.stats.inc("reach.fixed_depth_7_or_more");
        }
        if views.first().is_some_and(|v| v.game.len() > 100) {
            out.stats.inc("reach.long_game_history");
        }
        out.stats.add("search_nodes_compared", infos.iter().filter_map(|i| parse_info(i).ok()).map(|p| p.nodes).max().unwrap_or(0));
        if h.lines.iter().any(|l| l.clock > v.deliver_clock && l.text != "quit") {
            out.stats.inc("reach.input_traffic_during_search");
        }
        if rec.stalls_fired > 0 {
            out.stats.inc("reach.stall_during_run");
        }
    }
    if capped {
        out.stats.inc("inconclusive.cap");
    }
    if let Some((p0, d0)) = digests.first() {
        for (n, (pi, d)) in digests.iter().enumerate().skip(1) {
            if keys[n] != keys[0] {
                out.stats.inc("environments_not_comparable");
                continue;
            }
            if d != d0 {
                // first point of difference
                let a: Vec<&str> = d0.split(" | ").collect();
                let b: Vec<&str> = d.split(" | ").collect();
                let k = a.iter().zip(&b).position(|(x, y)| x != y).unwrap_or(a.len().min(b.len()));
                out.violations.push(Violation::new(
                    "result_differs_between_environments",
                    format!(
                        "same position and depth, fresh cache: environment (plan {p0}) gave {:?}, environment (plan {pi}) gave {:?}",
                        a.get(k).unwrap_or(&"<end>"),
                        b.get(k).unwrap_or(&"<end>")
                    ),
                ));
                break;
            }
        }
    }
    out.nontrivial = keys.iter().filter(|k| **k == keys[0]).count() >= 2;
    out
}
